#!/bin/bash
# Runs the repository's pinned baseline suite (guard OFF: cfg(kani) is never set by a normal cargo build) and
# compares the set of passing tests with /root/.vp/BASELINE.json's stable_pass list.
# usage: ./baseline.sh [repo-dir]
set -u
R="${1:-/repo}"
cd "$R" || exit 2
export CARGO_NET_OFFLINE=true
OUT=$(mktemp)
MODE=test
if [ -f /w/lib/nextest.toml ] && cargo nextest --version >/dev/null 2>&1; then
  MODE=nextest
  rm -f target/nextest/pb/junit.xml
  cargo nextest run --workspace --no-fail-fast --tool-config-file pb:/w/lib/nextest.toml --profile pb --test-threads 8 --offline >"$OUT" 2>&1
else
  cargo test --workspace --no-fail-fast --offline >"$OUT" 2>&1
fi
python3 - "$OUT" "$MODE" "$R" <<'PY'
import json,re,sys,os
import xml.etree.ElementTree as ET
out=open(sys.argv[1]).read(); mode=sys.argv[2]; R=sys.argv[3]
base=json.load(open('/root/.vp/BASELINE.json'))
stable=set(base['stable_pass'])
passed=set()
if mode=='nextest':
    j=os.path.join(R,'target/nextest/pb/junit.xml')
    if os.path.exists(j):
        for tc in ET.parse(j).getroot().iter('testcase'):
            bad=[c for c in tc if c.tag in ('failure','error')]
            if not bad:
                passed.add(tc.get('classname')+'::'+tc.get('name'))
    missing=sorted(stable-passed)
else:
    ok=set(m.group(1) for m in re.finditer(r'^test (\S+) \.\.\. ok',out,re.M))
    missing=sorted(s for s in stable if not any(s.endswith('::'+o) or s.split('::',2)[-1]==o for o in ok))
print('baseline: %d of %d stable tests passed'%(len(stable)-len(missing),len(stable)))
for m in missing[:20]: print('  MISSING',m)
if missing: print(out[-3000:])
sys.exit(1 if missing else 0)
PY
rc=$?
rm -f "$OUT"
exit $rc
