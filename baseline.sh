#!/bin/bash
# Runs the repository's pinned baseline suite (guard OFF: cfg(kani) is never set by a normal cargo build) and
# compares the set of passing tests with /root/.vp/BASELINE.json's stable_pass list.
# usage: ./baseline.sh [repo-dir]
set -u
R="${1:-/repo}"
cd "$R" || exit 2
export CARGO_NET_OFFLINE=true
OUT=$(mktemp)
if [ -f /w/lib/nextest.toml ] && cargo nextest --version >/dev/null 2>&1; then
  cargo nextest run --workspace --no-fail-fast --tool-config-file pb:/w/lib/nextest.toml --profile pb --test-threads 8 --offline >"$OUT" 2>&1
else
  cargo test --workspace --no-fail-fast --offline >"$OUT" 2>&1
fi
python3 - "$OUT" <<'PY'
import json,re,sys
out=open(sys.argv[1]).read()
base=json.load(open('/root/.vp/BASELINE.json'))
stable=set(base['stable_pass'])
passed=set()
for m in re.finditer(r'^\s*PASS \[[^\]]*\]\s+(\S+)\s+(\S+)',out,re.M):
    passed.add(m.group(1)+'::'+m.group(2))
if not passed:
    # cargo test format
    cur=None
    for l in out.splitlines():
        m=re.match(r'\s*Running (?:unittests )?(\S+)',l)
        m2=re.match(r'test (\S+) \.\.\. ok',l)
        if m2: passed.add(m2.group(1))
    # compare on the test path suffix only
    stable_s={s.split('::',1)[1] if '::' in s else s for s in stable}
    missing=[s for s in stable if not any(p.endswith(s.split('::',2)[-1]) for p in passed)]
else:
    missing=sorted(stable-passed)
print('baseline: %d of %d stable tests passed'%(len(stable)-len(missing),len(stable)))
for m in missing[:20]: print('  MISSING',m)
sys.exit(1 if missing else 0)
PY
rc=$?
rm -f "$OUT"
exit $rc
