//@@ {"inject":"src/lzip/writer.rs","features":"encoder,lzip","needs":["stubs_enc","stubs_enc_normal","stubs_dec"]}

use crate::{EncodeMode, MFType};

// C18-B / C19-D: LZIPWriter::new clamps for every option value: dictionary into [4 KiB, 512 MiB], member size raised
// to the dictionary size, lc/lp/pb forced to the LZIP constants; and the clamped dictionary is always encodable.
//@ {"name":"c18b_lzip_option_clamps","props":["C18","C19","C02"],"obligation":"C18-B","timeout":600,"functions":["lzip::writer::LZIPWriter::new","lzip::encode_dict_size"],"bounds":"dict_size every u32; member_size every non-zero u64 or None; lc/lp/pb every u32","assumes":[]}
#[kani::proof]
fn c18b_lzip_option_clamps() {
    let dict: u32 = kani::any();
    let (lc, lp, pb): (u32, u32, u32) = (kani::any(), kani::any(), kani::any());
    let ms: u64 = kani::any();
    let o = LZIPOptions {
        lzma_options: LZMAOptions::new(dict, lc, lp, pb, EncodeMode::Fast, 32, MFType::HC4, 4),
        member_size: NonZeroU64::new(ms),
    };
    let mut sink = Sink::<1>::new();
    let w = LZIPWriter::new(&mut sink, o);
    let d = w.options.lzma_options.dict_size;
    assert!(d >= MIN_DICT_SIZE && d <= MAX_DICT_SIZE);
    assert!(d == dict || dict < MIN_DICT_SIZE || dict > MAX_DICT_SIZE);
    assert!(w.options.lzma_options.lc == 3 && w.options.lzma_options.lp == 0 && w.options.lzma_options.pb == 2);
    match w.options.member_size {
        Some(m) => assert!(ms != 0 && m.get() >= d as u64 && m.get() >= ms && (m.get() == ms || m.get() == d as u64)),
        None => assert!(ms == 0),
    }
    assert!(encode_dict_size(d).is_ok(), "C19-D: clamped dictionary size cannot be written into the member header");
    kani::cover!(ms != 0 && ms < d as u64, "member size raised to the dictionary size");
    kani::cover!(dict > MAX_DICT_SIZE, "dictionary clamped down");
    core::mem::forget(w);
}

// C03-B / C02-G: member header layout: "LZIP", version 1, dictionary byte that decodes to a size covering the encoder's.
//@ {"name":"c03b_lzip_member_header","no_inputs":true,"props":["C03","C02"],"obligation":"C03-B","timeout":1500,"mem_gb":9,"stubbing":true,"functions":["lzip::writer::LZIPWriter::new","lzip::writer::LZIPWriter::start_new_member","lzip::encode_dict_size","enc::lzma_writer::LZMAWriter::new_no_header"],"bounds":"dict_size 5000 (concrete, not exactly representable); no data written; unwind 10","assumes":["LZMAEncoder::new stubbed (verif_cheap_encoder)"],"stubs":["LZMAEncoder::new -> verif_cheap_encoder"]}
#[kani::proof]
#[kani::unwind(10)]
#[kani::stub(crate::enc::encoder::LZMAEncoder::new, crate::enc::encoder::verif_stubs_enc::verif_cheap_encoder)]
fn c03b_lzip_member_header() {
    // concrete size (a symbolic dictionary size makes the LZ window a symbolic-size object: 570 s); 5000 is not exactly
    // representable in the header, the arithmetic for every size is c02a_lzip_dict_byte_covers
    let dict: u32 = 5000;
    let o = LZIPOptions {
        lzma_options: LZMAOptions::new(dict, 3, 0, 2, EncodeMode::Fast, 32, MFType::HC4, 4),
        member_size: None,
    };
    let mut sink = Sink::<16>::new();
    let mut w = LZIPWriter::new(&mut sink, o);
    assert!(w.start_new_member().is_ok());
    let lw = w.lzma_writer.take().unwrap();
    let counting = lw.into_inner();
    assert!(counting.bytes_written() == 0, "compressed-size counter must start after the header");
    let s = counting.into_inner();
    assert!(s.len == 6, "C03-B: LZIP member header is 6 bytes");
    assert!(s.buf[0] == b'L' && s.buf[1] == b'Z' && s.buf[2] == b'I' && s.buf[3] == b'P' && s.buf[4] == 1);
    let d = crate::lzip::decode_dict_size(s.buf[5]);
    assert!(d.is_ok(), "C03-B: dictionary byte of the member header is invalid");
    let dv = d.unwrap();
    assert!(dv >= dict, "C02-A: member header dictionary smaller than the encoder's");
    kani::cover!(dv > dict, "size that is not exactly representable");
}
