//@@ {"inject":"src/lzip/writer.rs","features":"encoder,lzip"}

use crate::{EncodeMode, MFType};

// C18-B / C19-D: LZIPWriter::new clamps for every option value: dictionary into [4 KiB, 512 MiB], member size raised
// to the dictionary size, lc/lp/pb forced to the LZIP constants; and the clamped dictionary is always encodable.
//@ {"name":"c18b_lzip_option_clamps","props":["C18","C19","C02"],"obligation":"C18-B","timeout":600,"functions":["lzip::writer::LZIPWriter::new","lzip::encode_dict_size"],"bounds":"dict_size every u32; member_size every non-zero u64 or None; lc/lp/pb every u32","assumes":[]}
#[kani::proof]
fn c18b_lzip_option_clamps() {
    let dict: u32 = kani::any();
    let (lc, lp, pb): (u32, u32, u32) = (kani::any(), kani::any(), kani::any());
    let ms: u64 = kani::any();
    let o = LZIPOptions {
        lzma_options: LZMAOptions::new(dict, lc, lp, pb, EncodeMode::Fast, 32, MFType::HC4, 4),
        member_size: NonZeroU64::new(ms),
    };
    let w = LZIPWriter::new(Sink::<1>::new(), o);
    let d = w.options.lzma_options.dict_size;
    assert!(d >= MIN_DICT_SIZE && d <= MAX_DICT_SIZE);
    assert!(d == dict || dict < MIN_DICT_SIZE || dict > MAX_DICT_SIZE);
    assert!(w.options.lzma_options.lc == 3 && w.options.lzma_options.lp == 0 && w.options.lzma_options.pb == 2);
    match w.options.member_size {
        Some(m) => assert!(ms != 0 && m.get() >= d as u64 && m.get() >= ms && (m.get() == ms || m.get() == d as u64)),
        None => assert!(ms == 0),
    }
    assert!(encode_dict_size(d).is_ok(), "C19-D: clamped dictionary size cannot be written into the member header");
    kani::cover!(ms != 0 && ms < d as u64, "member size raised to the dictionary size");
    kani::cover!(dict > MAX_DICT_SIZE, "dictionary clamped down");
    core::mem::forget(w);
}
