//@@ {"inject":"src/lib.rs","mod":"verif_common","always":true,"raw":true}
// Environment stubs shared by all harnesses (DESIGN.md 1.1).  Injected into src/lib.rs of the scratch copy.
#[cfg(kani)]
#[allow(dead_code, unused)]
pub(crate) mod verif_common {
    use crate::{Error, Read, Result, Write};

    /// Fixed-capacity fault-free sink.  `write` accepts everything in one shot and `write_all` is overridden so the
    /// default retry loop is not nested into the caller's loops.  Overflowing the capacity is a harness sizing bug and
    /// is asserted, so it can never silently truncate.
    pub struct Sink<const N: usize> {
        pub buf: [u8; N],
        pub len: usize,
        pub writes: usize,
        pub flushes: usize,
    }

    impl<const N: usize> Sink<N> {
        pub fn new() -> Self {
            Self { buf: [0u8; N], len: 0, writes: 0, flushes: 0 }
        }
    }

    impl<const N: usize> Write for Sink<N> {
        fn write(&mut self, b: &[u8]) -> Result<usize> {
            assert!(self.len + b.len() <= N, "verif: Sink capacity exceeded (harness sizing)");
            if b.len() == 1 {
                self.buf[self.len] = b[0];
            } else {
                self.buf[self.len..self.len + b.len()].copy_from_slice(b);
            }
            self.len += b.len();
            self.writes += 1;
            Ok(b.len())
        }
        fn flush(&mut self) -> Result<()> {
            self.flushes += 1;
            Ok(())
        }
        fn write_all(&mut self, b: &[u8]) -> Result<()> {
            self.write(b).map(|_| ())
        }
    }

    /// Sink with a symbolic fault schedule; `write_all` is NOT overridden: the crate's own default loop is exercised.
    pub struct FaultySink<const N: usize> {
        pub buf: [u8; N],
        pub len: usize,
        /// at most `chunk` bytes accepted per `write` call
        pub chunk: usize,
        /// the `write` call with this index returns Err(Interrupted) once
        pub intr_at: usize,
        /// every `write` call with index >= err_at returns Err(Other)
        pub err_at: usize,
        pub calls: usize,
    }

    impl<const N: usize> FaultySink<N> {
        pub fn new() -> Self {
            Self { buf: [0u8; N], len: 0, chunk: usize::MAX, intr_at: usize::MAX, err_at: usize::MAX, calls: 0 }
        }
    }

    impl<const N: usize> Write for FaultySink<N> {
        fn write(&mut self, b: &[u8]) -> Result<usize> {
            let call = self.calls;
            self.calls += 1;
            if call == self.intr_at {
                return Err(Error::Interrupted);
            }
            if call >= self.err_at {
                return Err(Error::Other("verif: injected sink error"));
            }
            let n = core::cmp::min(b.len(), self.chunk);
            assert!(self.len + n <= N, "verif: FaultySink capacity exceeded (harness sizing)");
            let mut i = 0;
            while i < n {
                self.buf[self.len + i] = b[i];
                i += 1;
            }
            self.len += n;
            Ok(n)
        }
        fn flush(&mut self) -> Result<()> {
            Ok(())
        }
    }

    /// Fixed-content fault-free source with an explicit end (`len`): `read` returns min(want, left) in one call,
    /// `read_exact` fails with EOF when fewer bytes are left.  Copies are byte loops (<= N iterations) rather than a
    /// symbolic-length memcpy: CBMC turns the latter into a whole-array update of the destination (measured: 24 GB
    /// OOM when the destination is the 64 KiB LZMA2 chunk buffer).
    pub struct Src<const N: usize> {
        pub buf: [u8; N],
        pub len: usize,
        pub pos: usize,
        pub reads: usize,
        /// number of read_exact calls that failed with EOF / read calls that returned 0 at the end
        pub eof_hits: usize,
    }

    impl<const N: usize> Src<N> {
        pub fn new(buf: [u8; N], len: usize) -> Self {
            assert!(len <= N);
            Self { buf, len, pos: 0, reads: 0, eof_hits: 0 }
        }
        pub fn any() -> Self {
            let buf: [u8; N] = kani::any();
            let len: usize = kani::any();
            kani::assume(len <= N);
            Self { buf, len, pos: 0, reads: 0, eof_hits: 0 }
        }
        pub fn full(buf: [u8; N]) -> Self {
            Self { buf, len: N, pos: 0, reads: 0, eof_hits: 0 }
        }
    }

    impl<const N: usize> Read for Src<N> {
        fn read(&mut self, b: &mut [u8]) -> Result<usize> {
            self.reads += 1;
            // straight-line fast paths for the 1/2/4-byte reads the parsers issue (the destination length is a
            // constant at those call sites, so only one arm survives; the generic loop below was unrolled 1900 times in
            // one XZ harness because the count comes out of a RefCell and is not constant-folded)
            let left = self.len - self.pos;
            if b.len() == 1 {
                if left == 0 {
                    return Ok(0);
                }
                b[0] = self.buf[self.pos];
                self.pos += 1;
                return Ok(1);
            }
            if (b.len() == 2 || b.len() == 4) && left >= b.len() {
                b[0] = self.buf[self.pos];
                b[1] = self.buf[self.pos + 1];
                if b.len() == 4 {
                    b[2] = self.buf[self.pos + 2];
                    b[3] = self.buf[self.pos + 3];
                }
                self.pos += b.len();
                return Ok(b.len());
            }
            let n = core::cmp::min(b.len(), left);
            let mut i = 0;
            while i < n {
                b[i] = self.buf[self.pos + i];
                i += 1;
            }
            self.pos += n;
            Ok(n)
        }
        fn read_exact(&mut self, b: &mut [u8]) -> Result<()> {
            if b.len() > self.len - self.pos {
                self.pos = self.len;
                self.eof_hits += 1;
                return Err(Error::EOF);
            }
            let n = b.len();
            if n == 1 {
                b[0] = self.buf[self.pos];
            } else {
                let mut i = 0;
                while i < n {
                    b[i] = self.buf[self.pos + i];
                    i += 1;
                }
            }
            self.pos += n;
            self.reads += 1;
            Ok(())
        }
    }

    /// Source with a symbolic fault schedule; `read_exact` is NOT overridden: the crate's default loop is exercised.
    pub struct FaultySrc<const N: usize> {
        pub buf: [u8; N],
        pub len: usize,
        pub pos: usize,
        /// at most `chunk` bytes per `read` call
        pub chunk: usize,
        /// the `read` call with this index (0-based) returns Err(Interrupted) once
        pub intr_at: usize,
        /// every `read` call with index >= err_at returns Err(Other)
        pub err_at: usize,
        pub calls: usize,
    }

    impl<const N: usize> FaultySrc<N> {
        pub fn new(buf: [u8; N], len: usize) -> Self {
            assert!(len <= N);
            Self { buf, len, pos: 0, chunk: usize::MAX, intr_at: usize::MAX, err_at: usize::MAX, calls: 0 }
        }
    }

    impl<const N: usize> Read for FaultySrc<N> {
        fn read(&mut self, b: &mut [u8]) -> Result<usize> {
            let call = self.calls;
            self.calls += 1;
            if call == self.intr_at {
                return Err(Error::Interrupted);
            }
            if call >= self.err_at {
                return Err(Error::Other("verif: injected source error"));
            }
            let n = core::cmp::min(core::cmp::min(b.len(), self.len - self.pos), self.chunk);
            let mut i = 0;
            while i < n {
                b[i] = self.buf[self.pos + i];
                i += 1;
            }
            self.pos += n;
            Ok(n)
        }
    }

    pub fn is_eof(e: &Error) -> bool {
        matches!(e, Error::EOF)
    }
    pub fn is_invalid_data(e: &Error) -> bool {
        matches!(e, Error::InvalidData(_))
    }
    pub fn is_invalid_input(e: &Error) -> bool {
        matches!(e, Error::InvalidInput(_))
    }
    pub fn is_oom(e: &Error) -> bool {
        matches!(e, Error::OutOfMemory(_))
    }
    pub fn is_other(e: &Error) -> bool {
        matches!(e, Error::Other(_))
    }
}
