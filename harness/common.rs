//@@ {"inject":"src/lib.rs","mod":"verif_common","always":true,"raw":true}
// Environment stubs shared by all harnesses (DESIGN.md 1.1).  Injected into src/lib.rs of the scratch copy.
#[cfg(kani)]
#[allow(dead_code, unused)]
pub(crate) mod verif_common {
    use crate::{Error, Read, Result, Write};

    /// Fixed-capacity sink.  `write` accepts everything in one shot (no loop) and `write_all` is overridden so
    /// the default retry loop is not nested into the caller's loops.  Overflowing the capacity is a harness
    /// sizing bug and is asserted, so it can never silently truncate.
    pub struct Sink<const N: usize> {
        pub buf: [u8; N],
        pub len: usize,
        pub writes: usize,
        pub flushes: usize,
    }

    impl<const N: usize> Sink<N> {
        pub fn new() -> Self {
            Self { buf: [0u8; N], len: 0, writes: 0, flushes: 0 }
        }
        pub fn bytes(&self) -> &[u8] {
            &self.buf[..self.len]
        }
    }

    impl<const N: usize> Write for Sink<N> {
        fn write(&mut self, b: &[u8]) -> Result<usize> {
            assert!(self.len + b.len() <= N, "verif: Sink capacity exceeded (harness sizing)");
            self.buf[self.len..self.len + b.len()].copy_from_slice(b);
            self.len += b.len();
            self.writes += 1;
            Ok(b.len())
        }
        fn flush(&mut self) -> Result<()> {
            self.flushes += 1;
            Ok(())
        }
        fn write_all(&mut self, b: &[u8]) -> Result<()> {
            self.write(b).map(|_| ())
        }
    }

    /// Fixed-content source with an explicit end (`len`): `read` returns min(want, left) in one shot, `read_exact`
    /// fails with EOF without consuming when fewer bytes are left (the contract leaves the amount unspecified).
    pub struct Src<const N: usize> {
        pub buf: [u8; N],
        pub len: usize,
        pub pos: usize,
        pub reads: usize,
    }

    impl<const N: usize> Src<N> {
        pub fn new(buf: [u8; N], len: usize) -> Self {
            assert!(len <= N);
            Self { buf, len, pos: 0, reads: 0 }
        }
        pub fn any() -> Self {
            let buf: [u8; N] = kani::any();
            let len: usize = kani::any();
            kani::assume(len <= N);
            Self { buf, len, pos: 0, reads: 0 }
        }
        pub fn full(buf: [u8; N]) -> Self {
            Self { buf, len: N, pos: 0, reads: 0 }
        }
    }

    impl<const N: usize> Read for Src<N> {
        fn read(&mut self, b: &mut [u8]) -> Result<usize> {
            let n = core::cmp::min(b.len(), self.len - self.pos);
            b[..n].copy_from_slice(&self.buf[self.pos..self.pos + n]);
            self.pos += n;
            self.reads += 1;
            Ok(n)
        }
        fn read_exact(&mut self, b: &mut [u8]) -> Result<()> {
            if b.len() > self.len - self.pos {
                self.pos = self.len;
                return Err(Error::EOF);
            }
            let n = b.len();
            b.copy_from_slice(&self.buf[self.pos..self.pos + n]);
            self.pos += n;
            self.reads += 1;
            Ok(())
        }
    }

    pub fn is_eof(e: &Error) -> bool {
        matches!(e, Error::EOF)
    }
    pub fn is_invalid_data(e: &Error) -> bool {
        matches!(e, Error::InvalidData(_))
    }
    pub fn is_invalid_input(e: &Error) -> bool {
        matches!(e, Error::InvalidInput(_))
    }
    pub fn is_oom(e: &Error) -> bool {
        matches!(e, Error::OutOfMemory(_))
    }
}
