//@@ {"inject":"src/lib.rs","mod":"verif_common","always":true,"raw":true}
// Environment stubs shared by all harnesses (DESIGN.md 1.1).  Injected into src/lib.rs of the scratch copy.
#[cfg(kani)]
#[allow(dead_code, unused)]
pub(crate) mod verif_common {
    use crate::{Error, Read, Result, Write};

    /// Fixed-capacity sink.  `write` accepts everything in one shot (no loop) and `write_all` is overridden so
    /// the default retry loop is not nested into the caller's loops.  Overflowing the capacity is a harness
    /// sizing bug and is asserted, so it can never silently truncate.
    pub struct Sink<const N: usize> {
        pub buf: [u8; N],
        pub len: usize,
        pub writes: usize,
        pub flushes: usize,
        /// fault schedule: at most `chunk` bytes accepted per `write` call (usize::MAX = everything)
        pub chunk: usize,
        /// fault schedule: the `write` call with this index returns Err(Interrupted) once
        pub intr_at: usize,
        /// fault schedule: every `write` call with index >= err_at returns Err(Other)
        pub err_at: usize,
        pub calls: usize,
    }

    impl<const N: usize> Sink<N> {
        pub fn new() -> Self {
            Self { buf: [0u8; N], len: 0, writes: 0, flushes: 0, chunk: usize::MAX, intr_at: usize::MAX, err_at: usize::MAX, calls: 0 }
        }
        pub fn bytes(&self) -> &[u8] {
            &self.buf[..self.len]
        }
    }

    impl<const N: usize> Write for Sink<N> {
        fn write(&mut self, b: &[u8]) -> Result<usize> {
            let call = self.calls;
            self.calls += 1;
            if call == self.intr_at {
                return Err(Error::Interrupted);
            }
            if call >= self.err_at {
                return Err(Error::Other("verif: injected sink error"));
            }
            let n = core::cmp::min(b.len(), self.chunk);
            assert!(self.len + n <= N, "verif: Sink capacity exceeded (harness sizing)");
            self.buf[self.len..self.len + n].copy_from_slice(&b[..n]);
            self.len += n;
            self.writes += 1;
            Ok(n)
        }
        fn flush(&mut self) -> Result<()> {
            self.flushes += 1;
            Ok(())
        }
        fn write_all(&mut self, b: &[u8]) -> Result<()> {
            if self.chunk == usize::MAX && self.intr_at == usize::MAX {
                // no fault schedule: single shot, no retry loop nested into the caller's loops
                return self.write(b).map(|_| ());
            }
            // with a fault schedule the crate's own default write_all loop is what is being exercised
            let mut buf = b;
            while !buf.is_empty() {
                match self.write(buf) {
                    Ok(0) => return Err(Error::WriteZero("could not write any byte")),
                    Ok(n) => buf = &buf[n..],
                    Err(Error::Interrupted) => {}
                    Err(e) => return Err(e),
                }
            }
            Ok(())
        }
    }

    /// Fixed-content source with an explicit end (`len`): `read` returns min(want, left) in one shot, `read_exact`
    /// fails with EOF without consuming when fewer bytes are left (the contract leaves the amount unspecified).
    pub struct Src<const N: usize> {
        pub buf: [u8; N],
        pub len: usize,
        pub pos: usize,
        pub reads: usize,
        /// fault schedule: at most `chunk` bytes per `read` call (usize::MAX = unlimited)
        pub chunk: usize,
        /// fault schedule: the `read`/`read_exact` call with this index (0-based) returns Err(Interrupted) once
        pub intr_at: usize,
        /// fault schedule: every `read`/`read_exact` call with index >= err_at returns Err(Other)
        pub err_at: usize,
        pub calls: usize,
    }

    impl<const N: usize> Src<N> {
        pub fn new(buf: [u8; N], len: usize) -> Self {
            assert!(len <= N);
            Self { buf, len, pos: 0, reads: 0, chunk: usize::MAX, intr_at: usize::MAX, err_at: usize::MAX, calls: 0 }
        }
        pub fn any() -> Self {
            let buf: [u8; N] = kani::any();
            let len: usize = kani::any();
            kani::assume(len <= N);
            Self { buf, len, pos: 0, reads: 0, chunk: usize::MAX, intr_at: usize::MAX, err_at: usize::MAX, calls: 0 }
        }
        pub fn full(buf: [u8; N]) -> Self {
            Self { buf, len: N, pos: 0, reads: 0, chunk: usize::MAX, intr_at: usize::MAX, err_at: usize::MAX, calls: 0 }
        }
    }

    impl<const N: usize> Read for Src<N> {
        fn read(&mut self, b: &mut [u8]) -> Result<usize> {
            let call = self.calls;
            self.calls += 1;
            if call == self.intr_at {
                return Err(Error::Interrupted);
            }
            if call >= self.err_at {
                return Err(Error::Other("verif: injected source error"));
            }
            let n = core::cmp::min(core::cmp::min(b.len(), self.len - self.pos), self.chunk);
            let mut i = 0;
            while i < n {
                b[i] = self.buf[self.pos + i];
                i += 1;
            }
            self.pos += n;
            self.reads += 1;
            Ok(n)
        }
        fn read_exact(&mut self, b: &mut [u8]) -> Result<()> {
            let call = self.calls;
            self.calls += 1;
            if call >= self.err_at {
                return Err(Error::Other("verif: injected source error"));
            }
            if b.len() > self.len - self.pos {
                self.pos = self.len;
                return Err(Error::EOF);
            }
            let n = b.len();
            // byte loop (<= N iterations) instead of a symbolic-length memcpy: CBMC turns the latter into a whole-array
            // byte_update of the destination (measured: 24 GB OOM when the destination is the 64 KiB chunk buffer)
            let mut i = 0;
            while i < n {
                b[i] = self.buf[self.pos + i];
                i += 1;
            }
            self.pos += n;
            self.reads += 1;
            Ok(())
        }
    }

    pub fn is_eof(e: &Error) -> bool {
        matches!(e, Error::EOF)
    }
    pub fn is_invalid_data(e: &Error) -> bool {
        matches!(e, Error::InvalidData(_))
    }
    pub fn is_invalid_input(e: &Error) -> bool {
        matches!(e, Error::InvalidInput(_))
    }
    pub fn is_oom(e: &Error) -> bool {
        matches!(e, Error::OutOfMemory(_))
    }
}
