//@@ {"inject":"src/lz/lz_encoder.rs","features":"encoder"}

use super::extend_match;

const WB: usize = 160;

/// Minimal match finder: `skip` advances the window position exactly like HC4::skip does (move_pos(4,4)), without
/// hash tables (the real tables are out of reach for CBMC: 61 GB for 8 bytes).
struct PosOnlyMF;
impl MatchFind for PosOnlyMF {
    fn find_matches(&mut self, encoder: &mut LZEncoderData, matches: &mut Matches) {
        matches.count = 0;
        encoder.move_pos(4, 4);
    }
    fn skip(&mut self, encoder: &mut LZEncoderData, mut len: usize) {
        while len > 0 {
            len -= 1;
            encoder.move_pos(4, 4);
        }
    }
}

// window invariant between two operations of a real encode (established by LZEncoder::new, preserved by every method)
fn winv(d: &LZEncoderData, reserve: u32) -> bool {
    d.buf.len() == d.buf_size
        && d.buf_size == (d.keep_size_before + d.keep_size_after + reserve) as usize
        && d.buf_limit_u16 == d.buf_size - 2
        && d.read_pos >= -1
        && d.read_pos <= d.write_pos
        && d.write_pos >= 0
        && d.write_pos as usize <= d.buf_size
        && d.read_limit >= -1
        && d.read_limit <= d.write_pos
        && (d.pending_size as i64) <= d.read_pos as i64 + 1
        && d.pending_size <= 4
}

fn any_window() -> (LZEncoderData, [u8; WB], u32) {
    let content: [u8; WB] = kani::any();
    let kb: u32 = kani::any();
    let ka: u32 = kani::any();
    kani::assume(kb >= 1 && kb <= 16 && ka >= 4 && ka <= 16);
    let reserve = WB as u32 - kb - ka;
    let d = LZEncoderData {
        keep_size_before: kb,
        keep_size_after: ka,
        match_len_max: 8,
        nice_len: 8,
        buf: content.to_vec(),
        buf_size: WB,
        buf_limit_u16: WB - 2,
        read_pos: kani::any(),
        read_limit: kani::any(),
        finishing: false,
        write_pos: kani::any(),
        pending_size: kani::any(),
    };
    kani::assume(winv(&d, reserve));
    (d, content, reserve)
}

// C01-F / C13-B: fill_window from an arbitrary in-invariant window: accepts a prefix of the input, copies exactly that
// prefix behind the old data, slides the window only by a multiple of 16 (position bits preserved) while keeping keep_size_before bytes of
// history, and recomputes the look-ahead gate (read_limit) as write_pos - keep_size_after.
//@ {"name":"c01f_window_fill_move","props":["C01","C07","C13"],"obligation":"C01-F","timeout":1500,"mem_gb":9,"functions":["lz::lz_encoder::LZEncoderData::fill_window","lz::lz_encoder::LZEncoderData::move_window","lz::lz_encoder::LZEncoderData::process_pending_bytes","lz::lz_encoder::LZEncoderData::move_pos"],"bounds":"160-byte window with arbitrary content; keep_size_before 1..=16, keep_size_after 4..=16 (symbolic); any read_pos/write_pos/read_limit/pending_size under the invariant; input 0..=8 arbitrary bytes; unwind 10","assumes":["window invariant winv()","match finder replaced by a position-only stub (PosOnlyMF) that advances read_pos like HC4::skip"],"stubs":["PosOnlyMF match finder"]}
#[kani::proof]
#[kani::unwind(10)]
fn c01f_window_fill_move() {
    let (mut d, content, reserve) = any_window();
    let input: [u8; 8] = kani::any();
    let ilen: usize = kani::any();
    kani::assume(ilen <= 8);
    let (rp0, wp0, rl0, pend0) = (d.read_pos, d.write_pos, d.read_limit, d.pending_size);
    let will_move = rp0 >= (d.buf_size as i32 - d.keep_size_after as i32);
    let mut mf = PosOnlyMF;
    let used = d.fill_window(&input[..ilen], &mut mf);
    assert!(used <= ilen, "C01-F: fill_window consumed more than offered");
    let shift = wp0 + used as i32 - d.write_pos; // how far the window slid
    // positions feed pos_state / literal position bits (masks up to 15): a slide must keep them, i.e. be a multiple of 16
    assert!(shift >= 0 && shift % 16 == 0, "C01-F: window moved backwards or by an amount that changes the position bits (not a multiple of 16)");
    assert!(will_move || shift == 0);
    assert!(d.write_pos as usize <= d.buf_size && d.write_pos >= 0);
    // history: every byte from (old read_pos + 1 - keep_size_before) up to the old write_pos is still there
    let j: i32 = kani::any();
    kani::assume(j >= 0 && j < wp0 && j >= rp0 + 1 - d.keep_size_before as i32);
    assert!(j - shift >= 0, "C01-F: history needed by the dictionary was moved out of the window");
    assert!(d.buf[(j - shift) as usize] == content[j as usize], "C01-F: window content changed by move_window");
    // the accepted prefix is appended behind the old data
    let k: usize = kani::any();
    kani::assume(k < used);
    assert!(d.buf[(wp0 - shift) as usize + k] == input[k], "C01-F: input bytes not copied to the end of the window");
    // look-ahead gate
    if d.write_pos >= d.keep_size_after as i32 {
        assert!(d.read_limit == d.write_pos - d.keep_size_after as i32, "C13-B: look-ahead gate not write_pos - keep_size_after");
    } else {
        assert!(d.read_limit == rl0 - shift);
    }
    assert!(d.read_pos >= -1 && d.read_pos <= d.write_pos);
    kani::cover!(shift > 0, "window slid");
    kani::cover!(used < ilen, "input only partly accepted");
    kani::cover!(pend0 > 0 && d.pending_size == 0, "pending bytes re-processed");
    core::mem::forget(d);
}

// C07-F / C13-C: filling the window in two calls equals filling it in one (no slide, enough room).
//@ {"name":"c07f_window_fill_split","props":["C07","C13"],"obligation":"C07-F","timeout":1500,"mem_gb":9,"functions":["lz::lz_encoder::LZEncoderData::fill_window"],"bounds":"160-byte window; input 8 arbitrary bytes cut at an arbitrary point; states without pending bytes; unwind 10","assumes":["window invariant winv()","no window slide during the calls (covered by c01f_window_fill_move)","PosOnlyMF match finder stub"],"stubs":["PosOnlyMF match finder"]}
#[kani::proof]
#[kani::unwind(10)]
fn c07f_window_fill_split() {
    let (mut a, content, reserve) = any_window();
    kani::assume(a.pending_size == 0);
    kani::assume(a.read_pos < (a.buf_size as i32 - a.keep_size_after as i32));
    kani::assume(a.write_pos as usize + 8 <= a.buf_size);
    let mut b = LZEncoderData {
        keep_size_before: a.keep_size_before, keep_size_after: a.keep_size_after, match_len_max: 8, nice_len: 8,
        buf: content.to_vec(), buf_size: WB, buf_limit_u16: WB - 2, read_pos: a.read_pos, read_limit: a.read_limit,
        finishing: false, write_pos: a.write_pos, pending_size: 0,
    };
    let input: [u8; 8] = kani::any();
    let cut: usize = kani::any();
    kani::assume(cut <= 8);
    let mut mf = PosOnlyMF;
    let u1 = a.fill_window(&input[..cut], &mut mf);
    let u2 = a.fill_window(&input[cut..], &mut mf);
    let u = b.fill_window(&input, &mut mf);
    assert!(u1 == cut && u2 == 8 - cut && u == 8);
    assert!(a.write_pos == b.write_pos && a.read_limit == b.read_limit && a.read_pos == b.read_pos, "C07-F: window state depends on the write partition");
    let j: usize = kani::any();
    kani::assume(j < WB);
    assert!(a.buf[j] == b.buf[j], "C07-F: window bytes depend on the write partition");
    kani::cover!(cut > 0 && cut < 8, "real split");
    core::mem::forget(a);
    core::mem::forget(b);
}

// C13-B: only flushing/finishing lift the look-ahead gate; has_enough_data is exactly read_pos - k < read_limit.
//@ {"name":"c13b_lookahead_gate","props":["C13","C01"],"obligation":"C13-B","timeout":900,"functions":["lz::lz_encoder::LZEncoderData::set_flushing","lz::lz_encoder::LZEncoderData::set_finishing","lz::lz_encoder::LZEncoderData::has_enough_data","lz::lz_encoder::LZEncoderData::move_pos"],"bounds":"160-byte window, any state under the invariant with pending_size == 0; k in 0..=8","assumes":["window invariant winv()","PosOnlyMF match finder stub"],"stubs":["PosOnlyMF match finder"]}
#[kani::proof]
#[kani::unwind(10)]
fn c13b_lookahead_gate() {
    let (mut d, _content, _r) = any_window();
    kani::assume(d.pending_size == 0);
    let k: i32 = kani::any();
    kani::assume(k >= 0 && k <= 8);
    assert!(d.has_enough_data(k) == (d.read_pos - k < d.read_limit));
    let fin: bool = kani::any();
    let mut mf = PosOnlyMF;
    if fin { d.set_finishing(&mut mf); } else { d.set_flushing(&mut mf); }
    assert!(d.read_limit == d.write_pos - 1, "C13-B: flush/finish must expose every buffered byte");
    assert!(d.finishing == fin);
    // move_pos: with avail below the flushing requirement and not finishing, the byte becomes pending and 0 is returned
    let rp = d.read_pos;
    if rp < d.write_pos {
        let avail = d.move_pos(4, 4);
        assert!(d.read_pos == rp + 1);
        let real = d.write_pos - d.read_pos;
        if real >= 4 { assert!(avail == real); } else { assert!(avail == 0 && d.pending_size == 1); }
    }
    kani::cover!(fin, "finishing");
    core::mem::forget(d);
}

// ---------------------------------------------------------------------------------------------- extend_match twins
// C14-A (both builds must equal this spec, hence each other) and C15-A (the optimization build's raw reads are
// inside the slice: Kani's pointer checks are on).
fn spec_extend(buf: &[u8; 24], start1: usize, start2: usize, max_ext: usize) -> usize {
    let mut k = 0;
    while k < max_ext && buf[start1 + k] == buf[start2 + k] {
        k += 1;
    }
    k
}

//@ {"name":"c14a_extend_match_spec","props":["C14","C15"],"obligation":"C14-A","timeout":1200,"feature_variants":["encoder","encoder,optimization"],"functions":["lz::extend_match","lz::extend_match_safe"],"bounds":"24-byte buffer with arbitrary content; read_pos, current_len, distance, limit any values satisfying the callers' contract; unwind 26","assumes":["callers' contract: 0 <= current_len <= limit, 1 <= distance <= read_pos + current_len, read_pos + limit <= buf.len()"]}
#[kani::proof]
#[kani::unwind(26)]
fn c14a_extend_match_spec() {
    let buf: [u8; 24] = kani::any();
    let (read_pos, cur, dist, limit): (i32, i32, i32, i32) = (kani::any(), kani::any(), kani::any(), kani::any());
    kani::assume(read_pos >= 0 && read_pos <= 24 && cur >= 0 && cur <= 24 && limit >= 0 && limit <= 24 && dist >= 1 && dist <= 48);
    kani::assume(cur <= limit && dist <= read_pos + cur);
    kani::assume(read_pos + limit <= 24);
    let got = extend_match(&buf, read_pos, cur, dist, limit);
    let s1 = (read_pos + cur) as usize;
    let want = cur as usize + spec_extend(&buf, s1, s1 - dist as usize, (limit - cur) as usize);
    assert!(got as usize == want, "C14-A: extend_match differs from the first-mismatch specification");
    kani::cover!(got == limit && limit - cur >= 9, "ran to the limit across a word boundary");
    kani::cover!(got > cur && got < limit, "stopped at a mismatch");
}

// C15-A: the optimization build promises to clamp reads to the buffer even when the caller's limit reaches beyond it.
//@ {"name":"c15a_extend_match_clamped","props":["C15"],"obligation":"C15-A","timeout":1200,"features":"encoder,optimization","functions":["lz::extend_match (unsafe get_unchecked path)","lz::extend_match_safe (read_unaligned path)"],"bounds":"24-byte buffer; read_pos + current_len <= buf.len(), distance >= 1, limit ANY value >= current_len (may reach beyond the buffer); unwind 26","assumes":["start1 = read_pos + current_len <= buf.len() and 1 <= distance <= start1 (callers index history that exists)"]}
#[kani::proof]
#[kani::unwind(26)]
fn c15a_extend_match_clamped() {
    let buf: [u8; 24] = kani::any();
    let (read_pos, cur, dist, limit): (i32, i32, i32, i32) = (kani::any(), kani::any(), kani::any(), kani::any());
    kani::assume(read_pos >= 0 && read_pos <= 24 && cur >= 0 && cur <= 24 && limit >= 0 && limit <= 4096 && dist >= 1 && dist <= 48);
    kani::assume(cur <= limit && dist <= read_pos + cur);
    kani::assume(read_pos + cur <= 24);
    let got = extend_match(&buf, read_pos, cur, dist, limit);
    assert!(got >= cur && got <= limit && (read_pos + got) as usize <= 24, "C15-A: match length reaches beyond the buffer");
    kani::cover!(read_pos + limit > 24, "limit beyond the physical buffer");
}

// C15-B / C14-A: fast-reject two-byte probe: reads stay inside the window buffer; result equals the safe definition.
//@ {"name":"c15b_fast_reject","props":["C15","C14"],"obligation":"C15-B","timeout":1200,"feature_variants":["encoder","encoder,optimization"],"functions":["lz::lz_encoder::LZEncoderData::get_match_len_fast_reject","lz::extend_match"],"bounds":"24-byte window buffer; read_pos, dist, len_limit any values with dist+1 <= read_pos, read_pos + len_limit <= 24, len_limit >= 2; unwind 26","assumes":["callers' contract (match finders only probe distances inside the filled window and len_limit = min(avail, match_len_max) >= 2)"]}
#[kani::proof]
#[kani::unwind(26)]
fn c15b_fast_reject() {
    let content: [u8; 24] = kani::any();
    let d = LZEncoderData {
        keep_size_before: 8, keep_size_after: 8, match_len_max: 8, nice_len: 8, buf: content.to_vec(), buf_size: 24,
        buf_limit_u16: 22, read_pos: kani::any(), read_limit: 0, finishing: false, write_pos: 24, pending_size: 0,
    };
    let (dist, len_limit): (i32, i32) = (kani::any(), kani::any());
    kani::assume(d.read_pos >= 1 && d.read_pos <= 24 && dist >= 0 && dist <= 24 && len_limit >= 2 && len_limit <= 24);
    kani::assume(dist + 1 <= d.read_pos && d.read_pos + len_limit <= 24);
    let got = d.get_match_len_fast_reject::<2>(dist, len_limit);
    let rp = d.read_pos as usize;
    let md = (dist + 1) as usize;
    let want = if content[rp] != content[rp - md] || content[rp + 1] != content[rp + 1 - md] {
        0
    } else {
        2 + spec_extend(&content, rp + 2, rp + 2 - md, (len_limit - 2) as usize)
    };
    assert!(got == want, "C14-A: fast-reject result differs from the safe definition");
    kani::cover!(got == 0, "rejected");
    kani::cover!(got > 2, "extended");
    core::mem::forget(d);
}

// C15-B: LZEncoder::new establishes buf_limit_u16 = buf_size - 2 for every size combination it accepts.
//@ {"name":"c15b_buf_limit_from_ctor","props":["C15","C19"],"obligation":"C15-B","timeout":900,"functions":["lz::lz_encoder::LZEncoder::new_hc4","lz::lz_encoder::get_buf_size"],"bounds":"dict_size any value in [4096, 1 GiB]; extra sizes of both modes","assumes":[]}
#[kani::proof]
fn c15b_buf_limit_from_ctor() {
    let dict: u32 = kani::any();
    kani::assume(dict >= 4096 && dict <= (1 << 30));
    let fast: bool = kani::any();
    let (eb, ea) = if fast { (1u32, 272u32) } else { (4096u32, 4096u32) };
    let lz = LZEncoder::new_hc4(dict, eb, ea, 32, 273, 4);
    assert!(lz.data.buf.len() == lz.data.buf_size && lz.data.buf_limit_u16 + 2 == lz.data.buf_size);
    assert!(lz.data.keep_size_before == eb + dict && lz.data.keep_size_after == ea + 273);
    assert!(lz.data.buf_size as u64 >= lz.data.keep_size_before as u64 + lz.data.keep_size_after as u64 + (256 << 10));
    kani::cover!(dict == (1 << 30), "1 GiB");
    core::mem::forget(lz);
}
