//@@ {"inject":"src/decoder.rs","mod":"verif_api_decoder","raw":true}
// Read access to LZMADecoder's private model state for the symbol-mirror harnesses (cfg(kani) only, scratch copy only).
#[cfg(kani)]
#[allow(dead_code)]
impl LZMADecoder {
    pub(crate) fn verif_coder(&self) -> &LZMACoder { &self.coder }
    pub(crate) fn verif_coder_mut(&mut self) -> &mut LZMACoder { &mut self.coder }
    pub(crate) fn verif_match_len(&self) -> &LengthCoder { &self.match_len_decoder }
    pub(crate) fn verif_rep_len(&self) -> &LengthCoder { &self.rep_len_decoder }
    pub(crate) fn verif_lit_sub(&self, i: usize) -> &LiteralSubCoder { &self.literal_decoder.sub_decoders[i].coder }
    pub(crate) fn verif_decode_match<R: RangeReader>(&mut self, pos_state: u32, rc: &mut RangeDecoder<R>) -> u32 { self.decode_match(pos_state, rc) }
    pub(crate) fn verif_decode_rep_match<R: RangeReader>(&mut self, pos_state: u32, rc: &mut RangeDecoder<R>) -> u32 { self.decode_rep_match(pos_state, rc) }
    pub(crate) fn verif_lit_subs(&self) -> usize { self.literal_decoder.sub_decoders.len() }
}
