//@@ {"inject":"src/enc/encoder.rs","mod":"verif_stubs_enc","raw":true,"features":"encoder","needs":["stubs_enc_normal","stubs_dec"],"selftests":[{"name":"encoder_stub_equals_real","features":"encoder","filter":"verif_selftest_encoder_stub"}]}
// Constructor stub for LZMAEncoder::new (DESIGN.md 1.1 rule 1): the same statements as the real constructor except
// that the final `reset()` (about 2500 `fill` iterations) is replaced by tables built from array-repeat literals.
// Field-for-field equality with the real constructor is checked natively (selftest below) on every run that uses it.
#[cfg(any(kani, test))]
#[allow(dead_code, unused)]
pub(crate) mod verif_stubs_enc {
    use super::*;
    use crate::decoder::verif_stubs_dec::{fresh_coder, fresh_len_coder};

    #[allow(clippy::too_many_arguments)]
    pub(crate) fn verif_cheap_encoder(
        mode: EncodeMode,
        lc: u32,
        lp: u32,
        pb: u32,
        mf: MFType,
        depth_limit: i32,
        dict_size: u32,
        nice_len: usize,
    ) -> (LZMAEncoder, LZMAEncoderModes) {
        let fast_mode = mode == EncodeMode::Fast;
        let mode: LZMAEncoderModes = if fast_mode {
            LZMAEncoderModes::Fast(FastEncoderMode::default())
        } else {
            LZMAEncoderModes::Normal(NormalEncoderMode::verif_new_zeroed())
        };
        let (extra_size_before, extra_size_after) = if fast_mode {
            (FastEncoderMode::EXTRA_SIZE_BEFORE, FastEncoderMode::EXTRA_SIZE_AFTER)
        } else {
            (NormalEncoderMode::EXTRA_SIZE_BEFORE, NormalEncoderMode::EXTRA_SIZE_AFTER)
        };
        let lz = match mf {
            MFType::HC4 => LZEncoder::new_hc4(dict_size, extra_size_before, extra_size_after, nice_len as _, MATCH_LEN_MAX as _, depth_limit),
            MFType::BT4 => LZEncoder::new_bt4(dict_size, extra_size_before, extra_size_after, nice_len as _, MATCH_LEN_MAX as _, depth_limit),
        };
        let literal_encoder = LiteralEncoder::new(lc, lp); // sub-coders are created with PROB_INIT already
        let mut match_len_encoder = LengthEncoder::new(pb, nice_len);
        match_len_encoder.coder = fresh_len_coder();
        let mut rep_len_encoder = LengthEncoder::new(pb, nice_len);
        rep_len_encoder.coder = fresh_len_coder();
        let dist_slot_price_size = LZMAEncoder::get_dist_slot(dict_size - 1) + 1;
        let e = LZMAEncoder {
            coder: fresh_coder(pb as usize),
            lz,
            literal_encoder,
            match_len_encoder,
            rep_len_encoder,
            data: LZMAEncData {
                nice_len,
                dist_price_count: 0,
                align_price_count: 0,
                dist_slot_prices_size: dist_slot_price_size,
                dist_slot_prices: vec![vec![0; dist_slot_price_size as usize]; DIST_STATES],
                full_dist_prices: [[0; FULL_DISTANCES]; DIST_STATES],
                align_prices: [0; ALIGN_SIZE],
                back: 0,
                read_ahead: -1,
                uncompressed_size: 0,
            },
        };
        (e, mode)
    }

    fn len_eq(a: &LengthEncoder, b: &LengthEncoder) -> bool {
        a.coder.choice == b.coder.choice && a.coder.low == b.coder.low && a.coder.mid == b.coder.mid
            && a.coder.high == b.coder.high && a.counters == b.counters && a.prices == b.prices
    }

    pub(crate) fn encoders_equal(a: &(LZMAEncoder, LZMAEncoderModes), b: &(LZMAEncoder, LZMAEncoderModes)) -> bool {
        let (x, y) = (&a.0, &b.0);
        let c = |x: &LZMACoder, y: &LZMACoder| {
            x.pos_mask == y.pos_mask && x.reps == y.reps && x.state == y.state && x.is_match == y.is_match
                && x.is_rep == y.is_rep && x.is_rep0 == y.is_rep0 && x.is_rep1 == y.is_rep1 && x.is_rep2 == y.is_rep2
                && x.is_rep0_long == y.is_rep0_long && x.dist_slots == y.dist_slots
                && x.dist_special == y.dist_special && x.dist_align == y.dist_align
        };
        let modes = match (&a.1, &b.1) {
            (LZMAEncoderModes::Fast(_), LZMAEncoderModes::Fast(_)) => true,
            (LZMAEncoderModes::Normal(p), LZMAEncoderModes::Normal(q)) => p.verif_equals(q),
            _ => false,
        };
        let d = |p: &LZMAEncData, q: &LZMAEncData| {
            p.nice_len == q.nice_len && p.dist_price_count == q.dist_price_count && p.align_price_count == q.align_price_count
                && p.dist_slot_prices_size == q.dist_slot_prices_size && p.dist_slot_prices == q.dist_slot_prices
                && p.full_dist_prices == q.full_dist_prices && p.align_prices == q.align_prices && p.back == q.back
                && p.read_ahead == q.read_ahead && p.uncompressed_size == q.uncompressed_size
        };
        let lzd = |p: &crate::lz::LZEncoderData, q: &crate::lz::LZEncoderData| {
            p.keep_size_before == q.keep_size_before && p.keep_size_after == q.keep_size_after
                && p.match_len_max == q.match_len_max && p.nice_len == q.nice_len && p.buf_size == q.buf_size
                && p.buf.len() == q.buf.len() && p.buf_limit_u16 == q.buf_limit_u16 && p.read_pos == q.read_pos
                && p.read_limit == q.read_limit && p.finishing == q.finishing && p.write_pos == q.write_pos
                && p.pending_size == q.pending_size
        };
        modes && c(&x.coder, &y.coder) && d(&x.data, &y.data) && lzd(&x.lz.data, &y.lz.data)
            && x.lz.matches.len.len() == y.lz.matches.len.len()
            && len_eq(&x.match_len_encoder, &y.match_len_encoder) && len_eq(&x.rep_len_encoder, &y.rep_len_encoder)
            && x.literal_encoder.coder.lc == y.literal_encoder.coder.lc
            && x.literal_encoder.coder.literal_pos_mask == y.literal_encoder.coder.literal_pos_mask
            && x.literal_encoder.sub_encoders.len() == y.literal_encoder.sub_encoders.len()
            && x.literal_encoder.sub_encoders.iter().zip(y.literal_encoder.sub_encoders.iter()).all(|(p, q)| p.coder.probs == q.coder.probs)
    }

    #[cfg(test)]
    #[test]
    fn verif_selftest_encoder_stub() {
        for mode in [EncodeMode::Fast, EncodeMode::Normal] {
            for mf in [MFType::HC4, MFType::BT4] {
                for (lc, lp, pb) in [(0u32, 0u32, 0u32), (3, 0, 2), (4, 0, 4), (0, 4, 0), (1, 2, 3)] {
                    for dict in [4096u32, 4097, 65536, 1 << 20] {
                        for nice in [8usize, 32, 273] {
                            for depth in [0i32, 4] {
                                let real = LZMAEncoder::new(mode, lc, lp, pb, mf, depth, dict, nice);
                                let stub = verif_cheap_encoder(mode, lc, lp, pb, mf, depth, dict, nice);
                                assert!(encoders_equal(&real, &stub), "stub differs from LZMAEncoder::new({mode:?},{lc},{lp},{pb},{mf:?},{depth},{dict},{nice})");
                            }
                        }
                    }
                }
            }
        }
    }
}
