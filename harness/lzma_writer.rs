//@@ {"inject":"src/enc/lzma_writer.rs","features":"encoder","needs":["stubs_enc","stubs_enc_normal","stubs_dec"],"stubbing":true,"stubs":["LZMAEncoder::new replaced by verif_cheap_encoder (same statements minus reset(); natively compared with the real constructor on each run)"]}

use crate::{EncodeMode, MFType};

// C18-C / C03-B: .lzma writer with a declared size: header layout (LZMA_Alone: props, dict LE32, size LE64 or all-ones),
// writes beyond the declared size are refused before anything is encoded.  The declared size is CONCRETE per harness
// (a symbolic size makes the accept/refuse branch inside write() symbolic; CBMC then merges the "window untouched" and
// "window filled" states and every later access to the 270 KB window is a symbolic-offset operation: > 12 min, 7 GB);
// the written bytes and the end-marker flag are symbolic.
fn lzma_expected_size(expected: Option<u64>) {
    let (lc, pb): (u32, u32) = (1, 2);
    let dict: u32 = 4096;
    let o = LZMAOptions::new(dict, lc, 0, pb, EncodeMode::Fast, 32, MFType::HC4, 4);
    let marker: bool = kani::any();
    let mut sink = Sink::<32>::new();
    let w = LZMAWriter::new(&mut sink, &o, true, marker, expected);
    assert!(w.is_ok());
    let mut w = w.unwrap();
    {
        let s: &Sink<32> = &**w.rc.inner();
        assert!(s.len == 13, "C03-B: .lzma header must be 13 bytes");
        assert!(s.buf[0] as u32 == (pb * 5) * 9 + lc, "C03-B: properties byte");
        assert!(u32::from_le_bytes([s.buf[1], s.buf[2], s.buf[3], s.buf[4]]) == dict, "C03-B: dictionary size field");
        let sz = u64::from_le_bytes([s.buf[5], s.buf[6], s.buf[7], s.buf[8], s.buf[9], s.buf[10], s.buf[11], s.buf[12]]);
        assert!(sz == expected.unwrap_or(u64::MAX), "C18-C: header must carry exactly the declared size (all ones when unknown)");
    }
    assert!(w.use_end_marker == marker);
    let data: [u8; 3] = kani::any();
    let exp = expected.unwrap_or(u64::MAX);
    let r1 = w.write(&data[..2]);
    if exp < 2 {
        assert!(r1.is_err(), "C18-C: write beyond the declared size accepted");
    } else {
        assert!(matches!(r1, Ok(2)));
        let r2 = w.write(&data[2..]);
        if exp < 3 {
            assert!(r2.is_err(), "C18-C: write beyond the declared size accepted");
            assert!(w.get_uncompressed_size() == 2);
        } else {
            assert!(matches!(r2, Ok(1)));
            assert!(w.get_uncompressed_size() == 3, "C18-C: byte counter differs from the bytes accepted");
        }
        assert!(w.rc.inner().len == 13, "no symbol may be coded before the look-ahead is filled");
    }
    kani::cover!(marker, "end marker requested");
    core::mem::forget(w);
}

//@ {"name":"c18c_lzma_expected_size_none","props":["C18","C03","C19"],"obligation":"C18-C","timeout":1500,"mem_gb":9,"functions":["enc::lzma_writer::LZMAWriter::new","enc::lzma_writer::LZMAWriter::write","lz::lz_encoder::LZEncoderData::fill_window","enc::encoder::LZMAEncoder::encode_for_lzma1"],"bounds":"lc=1, lp=0, pb=2, dict 4096; no declared size; two write calls of 2 and 1 arbitrary bytes; end-marker flag symbolic; unwind 14","assumes":["writes are shorter than the encoder's look-ahead, so no symbol is coded; finish() is checked separately (c18c_lzma_finish_short_*)"],"stubs":["LZMAEncoder::new -> verif_cheap_encoder"]}
#[kani::proof]
#[kani::unwind(14)]
#[kani::stub(crate::enc::encoder::LZMAEncoder::new, crate::enc::encoder::verif_stubs_enc::verif_cheap_encoder)]
fn c18c_lzma_expected_size_none() { lzma_expected_size(None); }

//@ {"name":"c18c_lzma_expected_size_1","props":["C18","C03","C19"],"obligation":"C18-C","timeout":1500,"mem_gb":9,"functions":["enc::lzma_writer::LZMAWriter::new","enc::lzma_writer::LZMAWriter::write","lz::lz_encoder::LZEncoderData::fill_window","enc::encoder::LZMAEncoder::encode_for_lzma1"],"bounds":"lc=1, lp=0, pb=2, dict 4096; declared size 1: the first 2-byte write is refused; two write calls of 2 and 1 arbitrary bytes; end-marker flag symbolic; unwind 14","assumes":["writes are shorter than the encoder's look-ahead, so no symbol is coded; finish() is checked separately (c18c_lzma_finish_short_*)"],"stubs":["LZMAEncoder::new -> verif_cheap_encoder"]}
#[kani::proof]
#[kani::unwind(14)]
#[kani::stub(crate::enc::encoder::LZMAEncoder::new, crate::enc::encoder::verif_stubs_enc::verif_cheap_encoder)]
fn c18c_lzma_expected_size_1() { lzma_expected_size(Some(1)); }

//@ {"name":"c18c_lzma_expected_size_2","props":["C18","C03","C19"],"obligation":"C18-C","timeout":1500,"mem_gb":9,"functions":["enc::lzma_writer::LZMAWriter::new","enc::lzma_writer::LZMAWriter::write","lz::lz_encoder::LZEncoderData::fill_window","enc::encoder::LZMAEncoder::encode_for_lzma1"],"bounds":"lc=1, lp=0, pb=2, dict 4096; declared size 2: the second write is refused; two write calls of 2 and 1 arbitrary bytes; end-marker flag symbolic; unwind 14","assumes":["writes are shorter than the encoder's look-ahead, so no symbol is coded; finish() is checked separately (c18c_lzma_finish_short_*)"],"stubs":["LZMAEncoder::new -> verif_cheap_encoder"]}
#[kani::proof]
#[kani::unwind(14)]
#[kani::stub(crate::enc::encoder::LZMAEncoder::new, crate::enc::encoder::verif_stubs_enc::verif_cheap_encoder)]
fn c18c_lzma_expected_size_2() { lzma_expected_size(Some(2)); }

//@ {"name":"c18c_lzma_expected_size_3","props":["C18","C03","C19"],"obligation":"C18-C","timeout":1500,"mem_gb":9,"functions":["enc::lzma_writer::LZMAWriter::new","enc::lzma_writer::LZMAWriter::write","lz::lz_encoder::LZEncoderData::fill_window","enc::encoder::LZMAEncoder::encode_for_lzma1"],"bounds":"lc=1, lp=0, pb=2, dict 4096; declared size 3: both writes fit exactly; two write calls of 2 and 1 arbitrary bytes; end-marker flag symbolic; unwind 14","assumes":["writes are shorter than the encoder's look-ahead, so no symbol is coded; finish() is checked separately (c18c_lzma_finish_short_*)"],"stubs":["LZMAEncoder::new -> verif_cheap_encoder"]}
#[kani::proof]
#[kani::unwind(14)]
#[kani::stub(crate::enc::encoder::LZMAEncoder::new, crate::enc::encoder::verif_stubs_enc::verif_cheap_encoder)]
fn c18c_lzma_expected_size_3() { lzma_expected_size(Some(3)); }

//@ {"name":"c18c_lzma_expected_size_big","props":["C18","C03","C19"],"obligation":"C18-C","timeout":1500,"mem_gb":9,"functions":["enc::lzma_writer::LZMAWriter::new","enc::lzma_writer::LZMAWriter::write","lz::lz_encoder::LZEncoderData::fill_window","enc::encoder::LZMAEncoder::encode_for_lzma1"],"bounds":"lc=1, lp=0, pb=2, dict 4096; huge declared size; two write calls of 2 and 1 arbitrary bytes; end-marker flag symbolic; unwind 14","assumes":["writes are shorter than the encoder's look-ahead, so no symbol is coded; finish() is checked separately (c18c_lzma_finish_short_*)"],"stubs":["LZMAEncoder::new -> verif_cheap_encoder"]}
#[kani::proof]
#[kani::unwind(14)]
#[kani::stub(crate::enc::encoder::LZMAEncoder::new, crate::enc::encoder::verif_stubs_enc::verif_cheap_encoder)]
fn c18c_lzma_expected_size_big() { lzma_expected_size(Some(u64::MAX / 2)); }

// C18-C: finish() short of the declared size is refused - whatever the end-marker flag says.  (Declared size and byte
// count are concrete here: with a symbolic size CBMC walks the whole encoder behind the size check - 9 GB OOM.)
fn lzma_finish_short(marker: bool) {
    let o = LZMAOptions::new(4096, 1, 0, 2, EncodeMode::Fast, 32, MFType::HC4, 4);
    let mut sink = Sink::<32>::new();
    let mut w = LZMAWriter::new(&mut sink, &o, true, marker, Some(5)).unwrap();
    assert!(matches!(w.write(&[0x41, 0x42, 0x43]), Ok(3)));
    let f = w.finish();
    assert!(f.is_err(), "C18-C: finish accepted although fewer bytes than declared were written");
    kani::cover!(true, "end reached");
}

//@ {"name":"c18c_lzma_finish_short_no_marker","props":["C18","C19"],"no_inputs":true,"obligation":"C18-C","timeout":1500,"mem_gb":9,"functions":["enc::lzma_writer::LZMAWriter::new","enc::lzma_writer::LZMAWriter::write","enc::lzma_writer::LZMAWriter::finish"],"bounds":"declared size 5, 3 bytes written, header, no end marker (all concrete); unwind 14","assumes":["LZMAEncoder::new stubbed"],"stubs":["LZMAEncoder::new -> verif_cheap_encoder"]}
#[kani::proof]
#[kani::unwind(14)]
#[kani::stub(crate::enc::encoder::LZMAEncoder::new, crate::enc::encoder::verif_stubs_enc::verif_cheap_encoder)]
fn c18c_lzma_finish_short_no_marker() { lzma_finish_short(false); }

//@ {"name":"c18c_lzma_finish_short_with_marker","props":["C18","C19"],"no_inputs":true,"obligation":"C18-C","timeout":1500,"mem_gb":9,"functions":["enc::lzma_writer::LZMAWriter::new","enc::lzma_writer::LZMAWriter::write","enc::lzma_writer::LZMAWriter::finish"],"bounds":"declared size 5, 3 bytes written, header AND end marker (the combination only the 5-argument constructor produces); unwind 14","assumes":["LZMAEncoder::new stubbed"],"stubs":["LZMAEncoder::new -> verif_cheap_encoder"]}
#[kani::proof]
#[kani::unwind(14)]
#[kani::stub(crate::enc::encoder::LZMAEncoder::new, crate::enc::encoder::verif_stubs_enc::verif_cheap_encoder)]
fn c18c_lzma_finish_short_with_marker() { lzma_finish_short(true); }

use crate::Read;

// C01 / C16-A (whole pipeline, one symbol): the REAL LZMAWriter codes one arbitrary byte (literal) and finishes; the
// REAL LZMAReader decodes it back and has then consumed exactly the bytes the writer produced - with a declared size
// (no end marker) and with an end marker.
fn lzma1_one_literal(end_marker: bool, b: u8) {
    // The coded byte is CONCRETE: the length of the encoder's output depends on it, and a symbolic source length on
    // the reader side makes CBMC walk every symbol kind (did not finish in 40 min).  Symbolic: the foreign byte that
    // follows the stream.  From fresh probabilities one literal leaves range < 2^24, so the decoder's trailing
    // normalize() - the thing C16 is about here - is exercised for every byte value.
    let o = LZMAOptions::new(4096, 0, 0, 0, EncodeMode::Fast, 32, MFType::HC4, 4);
    let mut sink = Sink::<48>::new();
    let mut w = LZMAWriter::new_no_header(&mut sink, &o, end_marker).unwrap();
    assert!(matches!(w.write(&[b]), Ok(1)));
    let fin = w.finish();
    assert!(fin.is_ok());
    core::mem::forget(fin);
    let produced = sink.len;
    assert!(produced >= 5);
    // a trailing byte that does not belong to the stream follows it
    let mut buf = sink.buf;
    buf[produced] = kani::any();
    let mut src = Src::<48>::new(buf, produced + 1);
    let size = if end_marker { u64::MAX } else { 1 };
    let mut r = crate::LZMAReader::new(&mut src, size, 0, 0, 0, 4096, None).unwrap();
    let mut out = [0u8; 4];
    let n = r.read(&mut out);
    assert!(matches!(n, Ok(1)) && out[0] == b, "C01: one literal does not round-trip through LZMAWriter/LZMAReader");
    let n2 = r.read(&mut out);
    assert!(matches!(n2, Ok(0)), "C16: end of stream not reported after the last byte");
    core::mem::forget(r);
    assert!(src.pos == produced, "C16-A: reader did not stop exactly at the end of the LZMA stream");
    kani::cover!(true, "end reached");
}

//@ {"name":"c16a_lzma1_one_literal_declared_size","props":["C16","C01"],"obligation":"C16-A","timeout":2400,"mem_gb":13,"functions":["enc::lzma_writer::LZMAWriter::new_no_header","enc::lzma_writer::LZMAWriter::write","enc::lzma_writer::LZMAWriter::finish","enc::encoder::LZMAEncoder::encode_for_lzma1","enc::encoder::LZMAEncoder::encode_init","enc::encoder::LiteralSubEncoder::encode","enc::range_enc::RangeEncoder::finish","lzma_reader::LZMAReader::new","lzma_reader::LZMAReader::read_decode","decoder::LZMADecoder::decode","decoder::LiteralSubDecoder::decode","lz::lz_decoder::LZDecoder::flush"],"bounds":"input byte 0x41 (concrete); lc=lp=pb=0, dict 4096, Fast/HC4; declared size 1, no end marker; one ARBITRARY foreign byte after the stream; unwind 14","assumes":["LZMAEncoder::new / LZMADecoder::new replaced by their literal-built stubs (natively compared with the real constructors)"],"stubs":["LZMAEncoder::new -> verif_cheap_encoder","LZMADecoder::new -> verif_fresh_decoder"]}
#[kani::proof]
#[kani::unwind(14)]
#[kani::stub(crate::enc::encoder::LZMAEncoder::new, crate::enc::encoder::verif_stubs_enc::verif_cheap_encoder)]
#[kani::stub(crate::decoder::LZMADecoder::new, crate::decoder::verif_stubs_dec::verif_fresh_decoder)]
fn c16a_lzma1_one_literal_declared_size() { lzma1_one_literal(false, 0x41); }

//@ {"name":"c16a_lzma1_one_literal_end_marker","props":["C16","C01"],"obligation":"C16-A","timeout":5400,"mem_gb":18,"functions":["enc::lzma_writer::LZMAWriter::finish","enc::encoder::LZMAEncoder::encode_lzma1_end_marker","enc::encoder::LZMAEncoder::encode_match","lzma_reader::LZMAReader::read_decode","decoder::LZMADecoder::decode_match","decoder::LZMADecoder::end_marker_detected"],"bounds":"input byte 0x41 (concrete) followed by the end marker (about 45 coded bits); one arbitrary foreign byte after the stream; lc=lp=pb=0; unwind 34","assumes":["constructor stubs as above"],"stubs":["LZMAEncoder::new -> verif_cheap_encoder","LZMADecoder::new -> verif_fresh_decoder"]}
#[kani::proof]
#[kani::unwind(34)]
#[kani::stub(crate::enc::encoder::LZMAEncoder::new, crate::enc::encoder::verif_stubs_enc::verif_cheap_encoder)]
#[kani::stub(crate::decoder::LZMADecoder::new, crate::decoder::verif_stubs_dec::verif_fresh_decoder)]
fn c16a_lzma1_one_literal_end_marker() { lzma1_one_literal(true, 0x41); }
