//@@ {"inject":"src/enc/lzma_writer.rs","features":"encoder","needs":["stubs_enc","stubs_enc_normal","stubs_dec"],"stubbing":true,"stubs":["LZMAEncoder::new replaced by verif_cheap_encoder (same statements minus reset(); natively compared with the real constructor on each run)"]}

use crate::{EncodeMode, MFType};

// C18-C / C03-B: .lzma writer with a declared size: header layout (LZMA_Alone: props, dict LE32, size LE64 or all-ones),
// writes beyond the declared size are refused before anything is encoded.  The declared size is CONCRETE per harness
// (a symbolic size makes the accept/refuse branch inside write() symbolic; CBMC then merges the "window untouched" and
// "window filled" states and every later access to the 270 KB window is a symbolic-offset operation: > 12 min, 7 GB);
// the written bytes and the end-marker flag are symbolic.
fn lzma_expected_size(expected: Option<u64>) {
    let (lc, pb): (u32, u32) = (1, 2);
    let dict: u32 = 4096;
    let o = LZMAOptions::new(dict, lc, 0, pb, EncodeMode::Fast, 32, MFType::HC4, 4);
    let marker: bool = kani::any();
    let mut sink = Sink::<32>::new();
    let w = LZMAWriter::new(&mut sink, &o, true, marker, expected);
    assert!(w.is_ok());
    let mut w = w.unwrap();
    {
        let s: &Sink<32> = &**w.rc.inner();
        assert!(s.len == 13, "C03-B: .lzma header must be 13 bytes");
        assert!(s.buf[0] as u32 == (pb * 5) * 9 + lc, "C03-B: properties byte");
        assert!(u32::from_le_bytes([s.buf[1], s.buf[2], s.buf[3], s.buf[4]]) == dict, "C03-B: dictionary size field");
        let sz = u64::from_le_bytes([s.buf[5], s.buf[6], s.buf[7], s.buf[8], s.buf[9], s.buf[10], s.buf[11], s.buf[12]]);
        assert!(sz == expected.unwrap_or(u64::MAX), "C18-C: header must carry exactly the declared size (all ones when unknown)");
    }
    assert!(w.use_end_marker == marker);
    let data: [u8; 3] = kani::any();
    let exp = expected.unwrap_or(u64::MAX);
    let r1 = w.write(&data[..2]);
    if exp < 2 {
        assert!(r1.is_err(), "C18-C: write beyond the declared size accepted");
    } else {
        assert!(matches!(r1, Ok(2)));
        let r2 = w.write(&data[2..]);
        if exp < 3 {
            assert!(r2.is_err(), "C18-C: write beyond the declared size accepted");
            assert!(w.get_uncompressed_size() == 2);
        } else {
            assert!(matches!(r2, Ok(1)));
            assert!(w.get_uncompressed_size() == 3, "C18-C: byte counter differs from the bytes accepted");
        }
        assert!(w.rc.inner().len == 13, "no symbol may be coded before the look-ahead is filled");
    }
    kani::cover!(marker, "end marker requested");
    core::mem::forget(w);
}

//@ {"name":"c18c_lzma_expected_size_none","props":["C18","C03","C19"],"obligation":"C18-C","timeout":1500,"mem_gb":9,"functions":["enc::lzma_writer::LZMAWriter::new","enc::lzma_writer::LZMAWriter::write","lz::lz_encoder::LZEncoderData::fill_window","enc::encoder::LZMAEncoder::encode_for_lzma1"],"bounds":"lc=1, lp=0, pb=2, dict 4096; no declared size; two write calls of 2 and 1 arbitrary bytes; end-marker flag symbolic; unwind 14","assumes":["writes are shorter than the encoder's look-ahead, so no symbol is coded; finish() is checked separately (c18c_lzma_finish_short_*)"],"stubs":["LZMAEncoder::new -> verif_cheap_encoder"]}
#[kani::proof]
#[kani::unwind(14)]
#[kani::stub(crate::enc::encoder::LZMAEncoder::new, crate::enc::encoder::verif_stubs_enc::verif_cheap_encoder)]
fn c18c_lzma_expected_size_none() { lzma_expected_size(None); }

//@ {"name":"c18c_lzma_expected_size_1","props":["C18","C03","C19"],"obligation":"C18-C","timeout":1500,"mem_gb":9,"functions":["enc::lzma_writer::LZMAWriter::new","enc::lzma_writer::LZMAWriter::write","lz::lz_encoder::LZEncoderData::fill_window","enc::encoder::LZMAEncoder::encode_for_lzma1"],"bounds":"lc=1, lp=0, pb=2, dict 4096; declared size 1: the first 2-byte write is refused; two write calls of 2 and 1 arbitrary bytes; end-marker flag symbolic; unwind 14","assumes":["writes are shorter than the encoder's look-ahead, so no symbol is coded; finish() is checked separately (c18c_lzma_finish_short_*)"],"stubs":["LZMAEncoder::new -> verif_cheap_encoder"]}
#[kani::proof]
#[kani::unwind(14)]
#[kani::stub(crate::enc::encoder::LZMAEncoder::new, crate::enc::encoder::verif_stubs_enc::verif_cheap_encoder)]
fn c18c_lzma_expected_size_1() { lzma_expected_size(Some(1)); }

//@ {"name":"c18c_lzma_expected_size_2","props":["C18","C03","C19"],"obligation":"C18-C","timeout":1500,"mem_gb":9,"functions":["enc::lzma_writer::LZMAWriter::new","enc::lzma_writer::LZMAWriter::write","lz::lz_encoder::LZEncoderData::fill_window","enc::encoder::LZMAEncoder::encode_for_lzma1"],"bounds":"lc=1, lp=0, pb=2, dict 4096; declared size 2: the second write is refused; two write calls of 2 and 1 arbitrary bytes; end-marker flag symbolic; unwind 14","assumes":["writes are shorter than the encoder's look-ahead, so no symbol is coded; finish() is checked separately (c18c_lzma_finish_short_*)"],"stubs":["LZMAEncoder::new -> verif_cheap_encoder"]}
#[kani::proof]
#[kani::unwind(14)]
#[kani::stub(crate::enc::encoder::LZMAEncoder::new, crate::enc::encoder::verif_stubs_enc::verif_cheap_encoder)]
fn c18c_lzma_expected_size_2() { lzma_expected_size(Some(2)); }

//@ {"name":"c18c_lzma_expected_size_3","props":["C18","C03","C19"],"obligation":"C18-C","timeout":1500,"mem_gb":9,"functions":["enc::lzma_writer::LZMAWriter::new","enc::lzma_writer::LZMAWriter::write","lz::lz_encoder::LZEncoderData::fill_window","enc::encoder::LZMAEncoder::encode_for_lzma1"],"bounds":"lc=1, lp=0, pb=2, dict 4096; declared size 3: both writes fit exactly; two write calls of 2 and 1 arbitrary bytes; end-marker flag symbolic; unwind 14","assumes":["writes are shorter than the encoder's look-ahead, so no symbol is coded; finish() is checked separately (c18c_lzma_finish_short_*)"],"stubs":["LZMAEncoder::new -> verif_cheap_encoder"]}
#[kani::proof]
#[kani::unwind(14)]
#[kani::stub(crate::enc::encoder::LZMAEncoder::new, crate::enc::encoder::verif_stubs_enc::verif_cheap_encoder)]
fn c18c_lzma_expected_size_3() { lzma_expected_size(Some(3)); }

//@ {"name":"c18c_lzma_expected_size_big","props":["C18","C03","C19"],"obligation":"C18-C","timeout":1500,"mem_gb":9,"functions":["enc::lzma_writer::LZMAWriter::new","enc::lzma_writer::LZMAWriter::write","lz::lz_encoder::LZEncoderData::fill_window","enc::encoder::LZMAEncoder::encode_for_lzma1"],"bounds":"lc=1, lp=0, pb=2, dict 4096; huge declared size; two write calls of 2 and 1 arbitrary bytes; end-marker flag symbolic; unwind 14","assumes":["writes are shorter than the encoder's look-ahead, so no symbol is coded; finish() is checked separately (c18c_lzma_finish_short_*)"],"stubs":["LZMAEncoder::new -> verif_cheap_encoder"]}
#[kani::proof]
#[kani::unwind(14)]
#[kani::stub(crate::enc::encoder::LZMAEncoder::new, crate::enc::encoder::verif_stubs_enc::verif_cheap_encoder)]
fn c18c_lzma_expected_size_big() { lzma_expected_size(Some(u64::MAX / 2)); }

// C18-C: finish() short of the declared size is refused - whatever the end-marker flag says.  (Declared size and byte
// count are concrete here: with a symbolic size CBMC walks the whole encoder behind the size check - 9 GB OOM.)
fn lzma_finish_short(marker: bool) {
    let o = LZMAOptions::new(4096, 1, 0, 2, EncodeMode::Fast, 32, MFType::HC4, 4);
    let mut sink = Sink::<32>::new();
    let mut w = LZMAWriter::new(&mut sink, &o, true, marker, Some(5)).unwrap();
    assert!(matches!(w.write(&[0x41, 0x42, 0x43]), Ok(3)));
    let f = w.finish();
    assert!(f.is_err(), "C18-C: finish accepted although fewer bytes than declared were written");
    kani::cover!(true, "end reached");
}

//@ {"name":"c18c_lzma_finish_short_no_marker","props":["C18","C19"],"no_inputs":true,"obligation":"C18-C","timeout":1500,"mem_gb":9,"functions":["enc::lzma_writer::LZMAWriter::new","enc::lzma_writer::LZMAWriter::write","enc::lzma_writer::LZMAWriter::finish"],"bounds":"declared size 5, 3 bytes written, header, no end marker (all concrete); unwind 14","assumes":["LZMAEncoder::new stubbed"],"stubs":["LZMAEncoder::new -> verif_cheap_encoder"]}
#[kani::proof]
#[kani::unwind(14)]
#[kani::stub(crate::enc::encoder::LZMAEncoder::new, crate::enc::encoder::verif_stubs_enc::verif_cheap_encoder)]
fn c18c_lzma_finish_short_no_marker() { lzma_finish_short(false); }

//@ {"name":"c18c_lzma_finish_short_with_marker","props":["C18","C19"],"no_inputs":true,"obligation":"C18-C","timeout":1500,"mem_gb":9,"functions":["enc::lzma_writer::LZMAWriter::new","enc::lzma_writer::LZMAWriter::write","enc::lzma_writer::LZMAWriter::finish"],"bounds":"declared size 5, 3 bytes written, header AND end marker (the combination only the 5-argument constructor produces); unwind 14","assumes":["LZMAEncoder::new stubbed"],"stubs":["LZMAEncoder::new -> verif_cheap_encoder"]}
#[kani::proof]
#[kani::unwind(14)]
#[kani::stub(crate::enc::encoder::LZMAEncoder::new, crate::enc::encoder::verif_stubs_enc::verif_cheap_encoder)]
fn c18c_lzma_finish_short_with_marker() { lzma_finish_short(true); }

// C01 / C16-A / C03 (writer half of the one-literal pipeline): the REAL LZMAWriter codes one literal and finishes; the
// bytes it produced are exactly the canonical raw LZMA1 stream for that input (the sequence liblzma's encoder emits;
// the reader half - c16a_lzma1_reader_one_literal_* in lzma_reader.rs - decodes exactly these bytes and stops exactly
// after them).  (The whole pipeline in one harness - writer, then reader over the writer's sink - did not finish in
// 25 min even with a concrete input byte: the byte travels through the 4 KiB LZ window, which CBMC does not
// constant-fold.)
fn lzma1_writer_one_literal<const L: usize>(end_marker: bool, b: u8, want: [u8; L]) {
    let o = LZMAOptions::new(4096, 0, 0, 0, EncodeMode::Fast, 32, MFType::HC4, 4);
    let mut sink = Sink::<48>::new();
    let mut w = LZMAWriter::new_no_header(&mut sink, &o, end_marker).unwrap();
    assert!(matches!(w.write(&[b]), Ok(1)));
    let fin = w.finish();
    assert!(fin.is_ok());
    core::mem::forget(fin);
    assert!(sink.len == L, "C16-A: LZMAWriter produced a stream of a different length than the canonical one");
    let mut i = 0;
    while i < L {
        assert!(sink.buf[i] == want[i], "C01/C03: LZMAWriter's one-literal stream differs from the canonical LZMA1 stream");
        i += 1;
    }
    kani::cover!(true, "end reached");
}

//@ {"name":"c16a_lzma1_writer_one_literal_declared_size","props":["C16","C01","C03"],"no_inputs":true,"obligation":"C16-A","timeout":1800,"mem_gb":13,"functions":["enc::lzma_writer::LZMAWriter::new_no_header","enc::lzma_writer::LZMAWriter::write","enc::lzma_writer::LZMAWriter::finish","enc::encoder::LZMAEncoder::encode_for_lzma1","enc::encoder::LZMAEncoder::encode_init","enc::encoder::LiteralSubEncoder::encode","enc::range_enc::RangeEncoder::finish"],"bounds":"input byte 0x41 (concrete); lc=lp=pb=0, dict 4096, Fast/HC4; no end marker; expected 00 20 7f fc 00 00; unwind 14","assumes":["LZMAEncoder::new replaced by its literal-built stub (natively compared with the real constructor)"],"stubs":["LZMAEncoder::new -> verif_cheap_encoder"]}
#[kani::proof]
#[kani::unwind(14)]
#[kani::stub(crate::enc::encoder::LZMAEncoder::new, crate::enc::encoder::verif_stubs_enc::verif_cheap_encoder)]
fn c16a_lzma1_writer_one_literal_declared_size() { lzma1_writer_one_literal(false, 0x41, [0x00, 0x20, 0x7f, 0xfc, 0x00, 0x00]); }

//@ {"name":"c16a_lzma1_writer_one_literal_end_marker","props":["C16","C01","C03"],"no_inputs":true,"tier":"thorough","obligation":"C16-A","timeout":5400,"mem_gb":18,"functions":["enc::lzma_writer::LZMAWriter::finish","enc::encoder::LZMAEncoder::encode_lzma1_end_marker","enc::encoder::LZMAEncoder::encode_match"],"bounds":"input byte 0x41 (concrete) followed by the end marker; expected 00 20 c3 eb ff ff ff e1 00 00 00; lc=lp=pb=0; unwind 34","assumes":["constructor stub as above"],"stubs":["LZMAEncoder::new -> verif_cheap_encoder"]}
#[kani::proof]
#[kani::unwind(34)]
#[kani::stub(crate::enc::encoder::LZMAEncoder::new, crate::enc::encoder::verif_stubs_enc::verif_cheap_encoder)]
fn c16a_lzma1_writer_one_literal_end_marker() {
    lzma1_writer_one_literal(true, 0x41, [0x00, 0x20, 0xc3, 0xeb, 0xff, 0xff, 0xff, 0xe1, 0x00, 0x00, 0x00]);
}
