//@@ {"inject":"src/enc/lzma_writer.rs","features":"encoder","needs":["stubs_enc","stubs_enc_normal","stubs_dec"],"stubbing":true,"stubs":["LZMAEncoder::new replaced by verif_cheap_encoder (same statements minus reset(); natively compared with the real constructor on each run)"]}

use crate::{EncodeMode, MFType};

// C18-C / C03-B: .lzma writer with a declared size: header layout (LZMA_Alone: props, dict LE32, size LE64 or all-ones),
// writes beyond the declared size are refused before anything is encoded, finishing short is refused.
//@ {"name":"c18c_lzma_expected_size","props":["C18","C03","C19"],"obligation":"C18-C","timeout":1500,"mem_gb":9,"functions":["enc::lzma_writer::LZMAWriter::new","enc::lzma_writer::LZMAWriter::write","enc::lzma_writer::LZMAWriter::finish","lz::lz_encoder::LZEncoderData::fill_window","enc::encoder::LZMAEncoder::encode_for_lzma1"],"bounds":"lc=1, lp=0, pb=2, dict_size 4096 (concrete); expected size None or any u64; two write calls of 0..=3 bytes each (symbolic lengths); Fast/HC4; unwind 14","assumes":["writes are shorter than the encoder's look-ahead, so no symbol is coded before finish (the coding loop itself is outside this harness)","successful finish path cut (kani::assume) - it would run the real encoder"]}
#[kani::proof]
#[kani::unwind(14)]
#[kani::stub(crate::enc::encoder::LZMAEncoder::new, crate::enc::encoder::verif_stubs_enc::verif_cheap_encoder)]
fn c18c_lzma_expected_size() {
    // options concrete: a symbolic dictionary size makes the window buffer a symbolic-size object and every copy into
    // it a whole-array update (measured: > 20 min, 9 GB); the header arithmetic for all values is in c03b below
    let (lc, pb): (u32, u32) = (1, 2);
    let dict: u32 = 4096;
    let o = LZMAOptions::new(dict, lc, 0, pb, EncodeMode::Fast, 32, MFType::HC4, 4);
    let has_exp: bool = kani::any();
    let exp: u64 = kani::any();
    let expected = if has_exp { Some(exp) } else { None };
    let w = LZMAWriter::new_use_header(Sink::<32>::new(), &o, expected);
    assert!(w.is_ok());
    let mut w = w.unwrap();
    {
        let s = w.rc.inner();
        assert!(s.len == 13, "C03-B: .lzma header must be 13 bytes");
        assert!(s.buf[0] as u32 == (pb * 5) * 9 + lc, "C03-B: properties byte");
        assert!(u32::from_le_bytes([s.buf[1], s.buf[2], s.buf[3], s.buf[4]]) == dict, "C03-B: dictionary size field");
        let sz = u64::from_le_bytes([s.buf[5], s.buf[6], s.buf[7], s.buf[8], s.buf[9], s.buf[10], s.buf[11], s.buf[12]]);
        assert!(sz == if has_exp { exp } else { u64::MAX }, "C18-C: header must carry exactly the declared size (all ones when unknown)");
    }
    assert!(w.use_end_marker == !has_exp);
    let data = [0x41u8, 0x42, 0x43];
    let (n1, n2): (usize, usize) = (kani::any(), kani::any());
    kani::assume(n1 <= 3 && n2 <= 3);
    let r1 = w.write(&data[..n1]);
    let mut accepted = 0u64;
    if has_exp && exp < n1 as u64 {
        assert!(r1.is_err(), "C18-C: write beyond the declared size accepted");
    } else {
        assert!(matches!(r1, Ok(k) if k == n1));
        accepted += n1 as u64;
    }
    let r2 = w.write(&data[..n2]);
    if has_exp && exp < accepted + n2 as u64 {
        assert!(r2.is_err(), "C18-C: write beyond the declared size accepted");
    } else {
        assert!(matches!(r2, Ok(k) if k == n2));
        accepted += n2 as u64;
    }
    assert!(w.get_uncompressed_size() == accepted, "C18-C: byte counter differs from the bytes accepted");
    assert!(w.rc.inner().len == 13, "no symbol may be coded before the look-ahead is filled");
    let short = has_exp && exp != accepted;
    kani::cover!(short && exp > accepted, "finish short of the declared size");
    kani::cover!(has_exp && r2.is_err(), "write beyond the declared size refused");
    kani::assume(short); // the successful finish would run the real encoder
    let f = w.finish();
    assert!(f.is_err(), "C18-C: finish accepted although fewer bytes than declared were written");
}
