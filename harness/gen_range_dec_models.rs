//@@ {"inject":"src/range_dec.rs","mod":"verif_models","raw":true,"features":"encoder","generator":"asm_models","selftests":[{"name":"asm_model_equals_real_asm","features":"std,encoder,optimization","filter":"verif_selftest_asm_model","for":["range_dec_twin"]}]}
// Models of the asm! blocks of decode_direct_bits_{x86_64,aarch64}, regenerated from the current source text by
// /verif/lib/lower.py on every run (Engine L).  The selftest executes the REAL x86-64 asm and the model side by side on
// pseudo-random states (seeded by VERIF_SEED); a disagreement is a translator bug => the check aborts as UNDECIDED.
#[cfg(any(kani, test))]
#[allow(dead_code, unused, unused_assignments, unused_mut, unused_parens, clippy::all)]
pub(crate) mod verif_models {
/*@GENERATED@*/

    #[cfg(all(test, feature = "std", feature = "optimization", target_arch = "x86_64"))]
    #[test]
    fn verif_selftest_asm_model() {
        use super::*;
        let mut s: u64 = std::env::var("VERIF_SEED").ok().and_then(|v| v.parse().ok()).unwrap_or(0u64) ^ 0x9E37_79B9_7F4A_7C15;
        let mut next = move || {
            s ^= s << 13;
            s ^= s >> 7;
            s ^= s << 17;
            s
        };
        let mut overruns = 0;
        for it in 0..40000u32 {
            let len = 1 + (next() % 12) as usize;
            let buf: Vec<u8> = (0..len).map(|_| if next() % 4 == 0 { 0 } else { next() as u8 }).collect();
            let pos = (next() % (len as u64 + 1)) as usize;
            let range = match next() % 4 { 0 => next() as u32, 1 => (next() as u32) | 0x0100_0000, 2 => 1 << (next() % 32), _ => (next() as u32) >> (next() % 16) };
            let code = if next() % 2 == 0 { next() as u32 } else { (next() as u32) % range.max(1) };
            let count = 1 + (next() % 32) as u32;
            let mut real = RangeDecoder { inner: RangeDecoderBuffer { buf: buf.clone(), pos }, range, code };
            let r1 = real.decode_direct_bits_x86_64(count);
            let (mut mr, mut mc, mut mp, mut oob) = (range, code, pos, false);
            let r2 = model_direct_bits_x86_64(&mut mr, &mut mc, &mut mp, &buf, count, &mut oob);
            assert!(!oob, "model reports an out-of-bounds load at iteration {it}");
            assert_eq!((r1, real.range, real.code, real.inner.pos), (r2, mr, mc, mp), "asm model differs from the real asm at iteration {it}: len={len} pos={pos} range={range:#x} code={code:#x} count={count}");
            if mp == len { overruns += 1; }
        }
        assert!(overruns > 100, "selftest did not exercise the end-of-buffer region");
    }
}
