//@@ {"inject":"src/filter/delta.rs","features":"encoder"}

// C11-C / C07-A / C06-I: Delta encode equals the reference formula out[i] = in[i] - in[i-d] (bytes before the start
// are zero), decode inverts it, and both are independent of how the buffer is cut into calls.  Every distance a
// container can hand over (1..=256).
//@ {"name":"c11c_delta_reference_inverse_split","props":["C11","C07","C06"],"obligation":"C11-C","timeout":1200,"functions":["filter::delta::Delta::new","filter::delta::Delta::encode","filter::delta::Delta::decode"],"bounds":"8 arbitrary bytes; distance any value in 1..=256; one arbitrary cut point on the encoder side and an independent one on the decoder side; unwind 10","assumes":["distance in the range the XZ header can express"]}
#[kani::proof]
#[kani::unwind(10)]
fn c11c_delta_reference_inverse_split() {
    let x: [u8; 8] = kani::any();
    let dist: usize = kani::any();
    kani::assume(dist >= 1 && dist <= 256);
    let c1: usize = kani::any();
    kani::assume(c1 <= 8);
    let mut y = x;
    let mut e = Delta::new(dist);
    e.encode(&mut y[..c1]);
    e.encode(&mut y[c1..]);
    let i: usize = kani::any();
    kani::assume(i < 8);
    let prev = if i >= dist { x[i - dist] } else { 0 };
    assert!(y[i] == x[i].wrapping_sub(prev), "C11-C: delta encoder differs from out[i] = in[i] - in[i-d]");
    let d1: usize = kani::any();
    kani::assume(d1 <= 8);
    let mut z = y;
    let mut d = Delta::new(dist);
    d.decode(&mut z[..d1]);
    d.decode(&mut z[d1..]);
    assert!(z[i] == x[i], "C11-C: delta decode(encode(x)) != x");
    kani::cover!(dist <= 7 && c1 > 0 && c1 < 8 && d1 > 0 && d1 < 8 && d1 != c1, "history crosses a cut point on both sides");
    kani::cover!(dist == 256, "largest distance");
}

// C06-I: the decoder is total for ANY distance value (the public constructor takes a usize).
//@ {"name":"c06i_delta_decode_total","props":["C06","C19"],"obligation":"C06-I","timeout":900,"functions":["filter::delta::Delta::decode","filter::delta::DeltaReader::read"],"bounds":"8 arbitrary bytes; distance any usize; source delivers them in one read; unwind 10","assumes":[]}
#[kani::proof]
#[kani::unwind(10)]
fn c06i_delta_decode_total() {
    let dist: usize = kani::any();
    let mut src = Src::<8>::any();
    let mut r = DeltaReader::new(&mut src, dist);
    let mut out = [0u8; 8];
    let n = r.read(&mut out);
    assert!(n.is_ok());
    let n = n.unwrap();
    assert!(n <= 8);
    // zero-length destination: Ok(0) and nothing consumed
    let before = r.inner.pos;
    let z = r.read(&mut []);
    assert!(matches!(z, Ok(0)) && r.inner.pos == before, "C07-E: zero-length read disturbed the delta reader");
    kani::cover!(dist == 0, "distance zero");
    kani::cover!(dist > 256, "distance above 256");
}

// C05-D: DeltaWriter over a sink that accepts fewer bytes than offered: the bytes that reach the sink must be the
// reference encoding of the bytes the writer reported as consumed (write_all retries the rest).
//@ {"name":"c05d_delta_writer_short_write","props":["C05","C07"],"obligation":"C05-D","timeout":1200,"mem_gb":9,"functions":["filter::delta::DeltaWriter::write"],"bounds":"6 arbitrary bytes, distance 1..=4 (symbolic); the sink accepts 4 of the 6 bytes offered, the caller then offers the remaining 2 (the standard write_all protocol, spelled out with concrete lengths: a symbolic length makes the writer's Vec::resize a symbolic-size allocation, 9 GB OOM); unwind 10","assumes":[]}
#[kani::proof]
#[kani::unwind(10)]
fn c05d_delta_writer_short_write() {
    let x: [u8; 6] = kani::any();
    let dist: usize = kani::any();
    kani::assume(dist >= 1 && dist <= 4);
    let mut sink = FaultySink::<16>::new();
    sink.chunk = 4;
    let mut w = DeltaWriter::new(&mut sink, dist);
    let n = w.write(&x);
    assert!(matches!(n, Ok(4)), "the sink accepted 4 bytes: the writer must report 4");
    let m = w.write(&x[4..]);
    assert!(matches!(m, Ok(2)));
    let sink = w.into_inner();
    assert!(sink.len == 6, "C05-D: short writes lost or duplicated bytes");
    let i: usize = kani::any();
    kani::assume(i < 6);
    let prev = if i >= dist { x[i - dist] } else { 0 };
    assert!(sink.buf[i] == x[i].wrapping_sub(prev), "C05-D: a short write by the sink corrupted the delta encoding");
    kani::cover!(dist == 1, "distance one");
}

// C05-D: an error from the sink is returned to the caller.
//@ {"name":"c05d_delta_writer_sink_error","props":["C05"],"obligation":"C05-D","timeout":600,"functions":["filter::delta::DeltaWriter::write"],"bounds":"4 bytes; sink fails at its first write call","assumes":[]}
#[kani::proof]
#[kani::unwind(10)]
fn c05d_delta_writer_sink_error() {
    let x: [u8; 4] = kani::any();
    let mut sink = FaultySink::<8>::new();
    sink.err_at = 0;
    let mut w = DeltaWriter::new(&mut sink, 1);
    assert!(w.write(&x).is_err(), "C05-D: sink error swallowed by DeltaWriter");
    kani::cover!(true, "end reached");
}

// C11-C / C05: DeltaReader over a source that delivers the data in short reads returns exactly the reference decoding
// (the history must advance only over the bytes really read).
//@ {"name":"c11c_delta_reader_short_reads","props":["C11","C05","C07"],"obligation":"C11-C","timeout":1500,"functions":["filter::delta::DeltaReader::read","filter::delta::Delta::decode"],"bounds":"6 arbitrary bytes; distance 1..=3; source delivers 1..=6 bytes per call (symbolic chunk); destination buffer of 6 bytes offered each time, reads repeated until 6 bytes arrived (at most 6 calls); unwind 10","assumes":[]}
#[kani::proof]
#[kani::unwind(10)]
fn c11c_delta_reader_short_reads() {
    let x: [u8; 6] = kani::any();
    let dist: usize = kani::any();
    kani::assume(dist >= 1 && dist <= 3);
    let mut src = FaultySrc::<6>::new(x, 6);
    src.chunk = kani::any();
    kani::assume(src.chunk >= 1 && src.chunk <= 6);
    let mut r = DeltaReader::new(&mut src, dist);
    let mut out = [0u8; 6];
    let mut got = 0usize;
    let mut calls = 0;
    while got < 6 && calls < 6 {
        let mut tmp = [0u8; 6];
        let n = r.read(&mut tmp);
        assert!(n.is_ok());
        let n = n.unwrap();
        assert!(n >= 1 && got + n <= 6);
        let mut k = 0;
        while k < n {
            out[got + k] = tmp[k];
            k += 1;
        }
        got += n;
        calls += 1;
    }
    assert!(got == 6);
    let i: usize = kani::any();
    kani::assume(i < 6);
    // reference: out[i] = in[i] + out[i - d]
    let prev = if i >= dist { out[i - dist] } else { 0 };
    assert!(out[i] == x[i].wrapping_add(prev), "C11-C: DeltaReader output depends on how the source split its reads");
    kani::cover!(r.inner.chunk == 1, "one byte per read");
    kani::cover!(r.inner.chunk == 4, "a short read followed by the rest");
}
