//@@ {"inject":"src/filter/delta.rs","features":"encoder"}

// C11-C / C07-A / C06-I: Delta encode equals the reference formula out[i] = in[i] - in[i-d] (bytes before the start
// are zero), decode inverts it, and both are independent of how the buffer is cut into calls.  Every distance a
// container can hand over (1..=256).
//@ {"name":"c11c_delta_reference_inverse_split","props":["C11","C07","C06"],"obligation":"C11-C","timeout":1200,"functions":["filter::delta::Delta::new","filter::delta::Delta::encode","filter::delta::Delta::decode"],"bounds":"8 arbitrary bytes; distance any value in 1..=256; one arbitrary cut point on the encoder side and an independent one on the decoder side; unwind 10","assumes":["distance in the range the XZ header can express"]}
#[kani::proof]
#[kani::unwind(10)]
fn c11c_delta_reference_inverse_split() {
    let x: [u8; 8] = kani::any();
    let dist: usize = kani::any();
    kani::assume(dist >= 1 && dist <= 256);
    let c1: usize = kani::any();
    kani::assume(c1 <= 8);
    let mut y = x;
    let mut e = Delta::new(dist);
    e.encode(&mut y[..c1]);
    e.encode(&mut y[c1..]);
    let i: usize = kani::any();
    kani::assume(i < 8);
    let prev = if i >= dist { x[i - dist] } else { 0 };
    assert!(y[i] == x[i].wrapping_sub(prev), "C11-C: delta encoder differs from out[i] = in[i] - in[i-d]");
    let d1: usize = kani::any();
    kani::assume(d1 <= 8);
    let mut z = y;
    let mut d = Delta::new(dist);
    d.decode(&mut z[..d1]);
    d.decode(&mut z[d1..]);
    assert!(z[i] == x[i], "C11-C: delta decode(encode(x)) != x");
    kani::cover!(dist <= 7 && c1 > 0 && c1 < 8 && d1 > 0 && d1 < 8 && d1 != c1, "history crosses a cut point on both sides");
    kani::cover!(dist == 256, "largest distance");
}

// C06-I: the decoder is total for ANY distance value (the public constructor takes a usize).
//@ {"name":"c06i_delta_decode_total","props":["C06","C19"],"obligation":"C06-I","timeout":900,"functions":["filter::delta::Delta::decode","filter::delta::DeltaReader::read"],"bounds":"8 arbitrary bytes; distance any usize; source delivers them in one read; unwind 10","assumes":[]}
#[kani::proof]
#[kani::unwind(10)]
fn c06i_delta_decode_total() {
    let dist: usize = kani::any();
    let mut r = DeltaReader::new(Src::<8>::any(), dist);
    let mut out = [0u8; 8];
    let n = r.read(&mut out);
    assert!(n.is_ok());
    let n = n.unwrap();
    assert!(n <= 8);
    // zero-length destination: Ok(0) and nothing consumed
    let before = r.inner.pos;
    let z = r.read(&mut []);
    assert!(matches!(z, Ok(0)) && r.inner.pos == before, "C07-E: zero-length read disturbed the delta reader");
    kani::cover!(dist == 0, "distance zero");
    kani::cover!(dist > 256, "distance above 256");
}

// C05-D: DeltaWriter over a sink that accepts fewer bytes than offered: the bytes that reach the sink must be the
// reference encoding of the bytes the writer reported as consumed (write_all retries the rest).
//@ {"name":"c05d_delta_writer_short_write","props":["C05","C07"],"obligation":"C05-D","timeout":1200,"mem_gb":9,"functions":["filter::delta::DeltaWriter::write","no_std::Write::write_all"],"bounds":"6 arbitrary bytes, distance 1..=4, sink accepts 1..=6 bytes per call (symbolic chunk); driven by the crate's write_all loop; unwind 10","assumes":[]}
#[kani::proof]
#[kani::unwind(10)]
fn c05d_delta_writer_short_write() {
    let x: [u8; 6] = kani::any();
    let dist: usize = kani::any();
    kani::assume(dist >= 1 && dist <= 4);
    let mut sink = FaultySink::<16>::new();
    let chunk: usize = kani::any();
    kani::assume(chunk >= 1 && chunk <= 6);
    sink.chunk = chunk;
    let mut w = DeltaWriter::new(sink, dist);
    let r = w.write_all(&x);
    assert!(r.is_ok());
    let sink = w.into_inner();
    assert!(sink.len == 6, "C05-D: short writes lost or duplicated bytes");
    let i: usize = kani::any();
    kani::assume(i < 6);
    let prev = if i >= dist { x[i - dist] } else { 0 };
    assert!(sink.buf[i] == x[i].wrapping_sub(prev), "C05-D: a short write by the sink corrupted the delta encoding");
    kani::cover!(chunk == 1, "one byte per call");
    kani::cover!(chunk == 6, "no short write");
}

// C05-D: an error from the sink is returned to the caller.
//@ {"name":"c05d_delta_writer_sink_error","props":["C05"],"obligation":"C05-D","timeout":600,"functions":["filter::delta::DeltaWriter::write"],"bounds":"4 bytes; sink fails at its first write call","assumes":[]}
#[kani::proof]
#[kani::unwind(10)]
fn c05d_delta_writer_sink_error() {
    let x: [u8; 4] = kani::any();
    let mut sink = FaultySink::<8>::new();
    sink.err_at = 0;
    let mut w = DeltaWriter::new(sink, 1);
    assert!(w.write(&x).is_err(), "C05-D: sink error swallowed by DeltaWriter");
    kani::cover!(true, "end reached");
}
