//@@ {"inject":"src/lz/hash234.rs","mod":"verif_api_hash234","raw":true}
// Environment stubs for the 1 024 / 65 536 / >= 65 536-entry hash tables of Hash234 (cfg(kani) only, scratch copy only).
// A symbolic index into the real tables exhausts CBMC (measured: > 40 GB for one `skip` step), so the four table accessors
// are replaced with `#[kani::stub]` by the functions below: a read returns "what the slot of the current position's k-byte
// hash holds" (a harness-chosen arbitrary admissible entry), `update_tables` records the stored position, and a read after
// the update returns the stored position (as the real slot would).  `calc_hashes` (the hash formula) stays real.
#[cfg(kani)]
#[allow(dead_code)]
impl Hash234 {
    pub(crate) fn verif_values(&self) -> (i32, i32, i32) { (self.hash2_value, self.hash3_value, self.hash4_value) }
    pub(crate) fn verif_hash4_mask(&self) -> u32 { self.hash4_mask }
}
#[cfg(kani)]
#[allow(dead_code, static_mut_refs)]
pub(crate) mod verif_h234 {
    use super::Hash234;
    pub static mut ENTRY: [i32; 3] = [0; 3];
    pub static mut READS: [u32; 3] = [0; 3];
    pub static mut UPD_CALLS: u32 = 0;
    pub static mut UPD_POS: i32 = 0;
    /// false: all reads of one call hit the slots of ONE position (a read after the update sees the stored position);
    /// true: several positions are processed (HC4::skip): a read after an update hits another position's slot, which holds
    /// any earlier position (T1) - possibly the one just stored.
    pub static mut MULTI: bool = false;
    fn rd(k: usize) -> i32 {
        unsafe {
            READS[k] += 1;
            if UPD_CALLS == 0 {
                ENTRY[k]
            } else if MULTI {
                let v: i32 = kani::any();
                kani::assume(v >= 0 && v <= UPD_POS);
                v
            } else {
                UPD_POS
            }
        }
    }
    pub fn get2(_h: &Hash234) -> i32 { rd(0) }
    pub fn get3(_h: &Hash234) -> i32 { rd(1) }
    pub fn get4(_h: &Hash234) -> i32 { rd(2) }
    pub fn update(_h: &mut Hash234, pos: i32) {
        unsafe {
            UPD_CALLS += 1;
            UPD_POS = pos;
        }
    }
    pub fn reset() {
        unsafe {
            READS = [0; 3];
            UPD_CALLS = 0;
            MULTI = false;
        }
    }
}
