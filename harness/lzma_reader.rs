//@@ {"inject":"src/lzma_reader.rs","features":"encoder","needs":["stubs_dec"],"stubbing":true,"stubs":["LZMADecoder::new replaced by verif_havoc_decoder / verif_fresh_decoder (see stubs_dec.rs)"]}

use crate::decoder::verif_stubs_dec::*;

// C06-B / C17-D: .lzma header (13 arbitrary bytes) + arbitrary memory limit: never a panic; a limit below the
// estimator's figure is refused with OutOfMemory; accepted headers have in-range props and the dictionary buffer is
// within the estimate.
//@ {"name":"c06b_lzma_header_any13_memlimit","props":["C06","C17"],"obligation":"C06-B","timeout":1200,"mem_gb":9,"functions":["lzma_reader::LZMAReader::new_mem_limit","lzma_reader::LZMAReader::construct1","lzma_reader::LZMAReader::construct2","lzma_reader::get_memory_usage_by_props","lzma_reader::get_dict_size","range_dec::RangeDecoder::new_stream","lz::LZDecoder::new"],"bounds":"any 18 source bytes (13 header + 5 range coder init), source length symbolic 0..=18; mem_limit_kb any u32; no preset dictionary; unwind 20","assumes":[]}
#[kani::proof]
#[kani::unwind(20)]
#[kani::stub(crate::decoder::LZMADecoder::new, crate::decoder::verif_stubs_dec::verif_havoc_decoder)]
fn c06b_lzma_header_any13_memlimit() {
    let mut src = Src::<18>::any(); // kept outside the reader (see lzma_writer.rs: sinks/sources embedded in big structs)
    let b = src.buf;
    let n = src.len;
    let limit: u32 = kani::any();
    let props = b[0];
    let dict = u32::from_le_bytes([b[1], b[2], b[3], b[4]]);
    let r = LZMAReader::new_mem_limit(&mut src, limit, None);
    let need = get_memory_usage_by_props(dict, props);
    match r {
        Ok(rd) => {
            assert!(n == 18);
            assert!(props <= 224 && dict <= crate::DICT_SIZE_MAX);
            assert!(need.is_ok());
            assert!(limit >= need.unwrap(), "C17-D: reader created although its stated need exceeds the memory limit");
            // dictionary really allocated is covered by the estimate
            let dsz = rd.lz.verif_buf_size() as u64;
            assert!(dsz <= (need.unwrap() as u64) * 1024, "C17-C: dictionary larger than the estimator's figure");
            assert!(dsz >= 4096);
            kani::cover!(dict == 0, "zero dictionary in header is raised to 4 KiB");
            kani::cover!(true, "header accepted");
            core::mem::forget(rd);
        }
        Err(e) => {
            if n == 18 && need.is_ok() && limit < need.unwrap() {
                assert!(is_oom(&e), "C17-D: limit below need must be an out-of-memory error");
            }
            kani::cover!(is_oom(&e), "memory limit refused");
            kani::cover!(is_eof(&e), "truncated header");
        }
    }
}

// C17-C: LZMA decoder estimator arithmetic for every (dict, lc, lp): total, and covers dictionary + literal tables.
//@ {"name":"c17c_lzma_memory_usage","props":["C17","C06"],"obligation":"C17-C","timeout":600,"stubbing":false,"functions":["lzma_reader::get_memory_usage","lzma_reader::get_memory_usage_by_props","lzma_reader::get_dict_size"],"bounds":"dict_size every u32; lc, lp every u32; props byte every u8","assumes":[]}
#[kani::proof]
fn c17c_lzma_memory_usage() {
    let dict: u32 = kani::any();
    let (lc, lp): (u32, u32) = (kani::any(), kani::any());
    match get_memory_usage(dict, lc, lp) {
        Ok(kib) => {
            assert!(lc <= 8 && lp <= 4 && dict <= crate::DICT_SIZE_MAX);
            let dict_bytes = ((core::cmp::max(dict, 4096) as u64) + 15) & !15;
            let lit_bytes = (0x300u64 * 2) << (lc + lp);
            let fixed = 30 * 1024u64; // LZMACoder + two LengthCoders (about 28 KiB of u16 tables)
            assert!((kib as u64) * 1024 + 2048 >= dict_bytes + lit_bytes, "C17-C: estimator below dictionary + literal tables");
            assert!((kib as u64) * 1024 <= dict_bytes + lit_bytes + fixed, "C17-C: estimator not tight");
            kani::cover!(lc == 8 && lp == 4, "largest literal tables");
        }
        Err(e) => assert!(is_invalid_input(&e) && (lc > 8 || lp > 4 || dict > crate::DICT_SIZE_MAX)),
    }
    let p: u8 = kani::any();
    let r = get_memory_usage_by_props(dict, p);
    if p <= 224 && dict <= crate::DICT_SIZE_MAX {
        assert!(r.is_ok());
    } else {
        assert!(r.is_err());
    }
}

// C06-B: raw constructors with every (lc, lp, pb, dict, uncompressed size): Err or a reader whose dictionary is large
// enough; never a panic.
//@ {"name":"c06b_lzma_new_any_params","props":["C06","C19"],"obligation":"C06-B","timeout":1200,"mem_gb":9,"functions":["lzma_reader::LZMAReader::new","lzma_reader::LZMAReader::new_with_props","lzma_reader::LZMAReader::construct2"],"bounds":"lc, lp, pb, dict_size: every u32; uncomp_size: every u64; props: every u8; 5-byte source; unwind 8","assumes":[]}
#[kani::proof]
#[kani::unwind(8)]
#[kani::stub(crate::decoder::LZMADecoder::new, crate::decoder::verif_stubs_dec::verif_havoc_decoder)]
fn c06b_lzma_new_any_params() {
    let (lc, lp, pb, dict): (u32, u32, u32, u32) = (kani::any(), kani::any(), kani::any(), kani::any());
    let us: u64 = kani::any();
    let by_props: bool = kani::any();
    let props: u8 = kani::any();
    let mut src = Src::<5>::full([0, 0, 0, 0, 0]);
    let r = if by_props { LZMAReader::new_with_props(&mut src, us, props, dict, None) } else { LZMAReader::new(&mut src, us, lc, lp, pb, dict, None) };
    match r {
        Ok(rd) => {
            if !by_props {
                assert!(lc <= 8 && lp <= 4 && pb <= 4);
            } else {
                assert!(props <= 224);
            }
            assert!(dict <= crate::DICT_SIZE_MAX);
            let dsz = rd.lz.verif_buf_size() as u64;
            // the window covers min(dict, declared uncompressed size), at least 4 KiB
            let want = if us <= u64::MAX / 2 && (dict as u64) > us { us } else { dict as u64 };
            assert!(dsz >= core::cmp::max(want, 4096), "C06-B: dictionary smaller than the stream may reference");
            kani::cover!(us < 4096, "tiny declared size");
            kani::cover!(dict == crate::DICT_SIZE_MAX, "largest dictionary");
            core::mem::forget(rd);
        }
        Err(e) => {
            assert!(is_invalid_input(&e));
            kani::cover!(true, "refused");
        }
    }
}

// C05-A: LZMA1 stream decoder over a source that ends inside the range coder payload: the read call during which the
// source reported end-of-input must fail (it must not hand out bytes decoded from substituted zeros).
fn lzma1_truncated_payload(len: usize) {
    // Everything that decides a code path is concrete: the four code bytes (0: the first symbol is a literal) and the
    // source length.  (A symbolic length makes `new_stream`'s EOF test symbolic, the merged code value symbolic, and
    // CBMC then walks every symbol kind: > 30 min instead of 10 s.)  Symbolic: the byte the first normalisation pulls in.
    let mut b: [u8; 6] = kani::any();
    b[0] = 0; b[1] = 0; b[2] = 0; b[3] = 0; b[4] = 0;
    let mut src = Src::<6>::new(b, len);
    let rd = LZMAReader::new(&mut src, u64::MAX, 0, 0, 0, 4096, None);
    assert!(rd.is_ok());
    let mut rd = rd.unwrap();
    let mut out = [0u8; 1];
    let r = rd.read(&mut out);
    let hits = rd.rc.verif_inner().eof_hits;
    if hits > 0 {
        assert!(r.is_err(), "C05-A: source ended inside the LZMA payload but read() reported success");
    } else {
        assert!(matches!(r, Ok(1)), "a literal from a complete prefix must be delivered");
    }
    kani::cover!(true, "end reached");
    core::mem::forget(rd);
}

//@ {"name":"c05a_lzma1_truncated_payload","props":["C05"],"obligation":"C05-A","timeout":900,"mem_gb":9,"functions":["lzma_reader::LZMAReader::new","lzma_reader::LZMAReader::read_decode","decoder::LZMADecoder::decode","decoder::LiteralDecoder::decode","range_dec::RangeDecoder::decode_bit","range_dec::RangeDecoder::normalize","range_dec::RangeReader::read_u8 (impl for T: Read)"],"bounds":"lc=lp=pb=0, dictionary 4096, unknown size; source = exactly the 5 range-coder init bytes (code 0) and then end of input: the first literal needs one more byte; one 1-byte read; unwind 12","assumes":["fresh probabilities (stub equals the real constructor, checked natively)"]}
#[kani::proof]
#[kani::unwind(12)]
#[kani::stub(crate::decoder::LZMADecoder::new, crate::decoder::verif_stubs_dec::verif_fresh_decoder)]
fn c05a_lzma1_truncated_payload() { lzma1_truncated_payload(5); }

//@ {"name":"c05a_lzma1_complete_prefix","props":["C05","C01"],"obligation":"C05-A","timeout":900,"mem_gb":9,"functions":["lzma_reader::LZMAReader::read_decode","decoder::LZMADecoder::decode"],"bounds":"as above with one further arbitrary byte available: the literal is delivered and no end-of-input was hit; unwind 12","assumes":["fresh probabilities"]}
#[kani::proof]
#[kani::unwind(12)]
#[kani::stub(crate::decoder::LZMADecoder::new, crate::decoder::verif_stubs_dec::verif_fresh_decoder)]
fn c05a_lzma1_complete_prefix() { lzma1_truncated_payload(6); }

// C16-A / C01 (reader half of the one-literal pipeline): the canonical raw LZMA1 stream of one literal (lc=lp=pb=0;
// the byte sequences are what liblzma's encoder emits for this input and what LZMAWriter must emit - writer half:
// c16a_lzma1_writer_one_literal_*) followed by one ARBITRARY foreign byte: the real LZMAReader delivers the literal,
// reports the end, and has consumed exactly the stream - the foreign byte stays in the source.
fn lzma1_reader_one_literal<const L: usize>(stream: [u8; L], lit: u8, end_marker: bool) {
    let mut b = [0u8; 16];
    let mut i = 0;
    while i < L { b[i] = stream[i]; i += 1; }
    b[L] = kani::any();
    let mut src = Src::<16>::new(b, L + 1);
    let size = if end_marker { u64::MAX } else { 1 };
    let mut rd = LZMAReader::new(&mut src, size, 0, 0, 0, 4096, None).unwrap();
    let mut out = [0u8; 4];
    let n = rd.read(&mut out);
    assert!(matches!(n, Ok(1)) && out[0] == lit, "C01: canonical one-literal LZMA stream does not decode to the literal");
    let n2 = rd.read(&mut out);
    assert!(matches!(n2, Ok(0)), "C16: end of stream not reported after the last byte");
    let pos = rd.rc.verif_inner().pos;
    assert!(pos == L, "C16-A: reader did not stop exactly at the end of the LZMA stream");
    kani::cover!(true, "end reached");
    core::mem::forget(rd);
}

//@ {"name":"c16a_lzma1_reader_one_literal_declared_size","props":["C16","C01","C03"],"obligation":"C16-A","timeout":900,"mem_gb":9,"functions":["lzma_reader::LZMAReader::new","lzma_reader::LZMAReader::read_decode","decoder::LZMADecoder::decode","decoder::LiteralSubDecoder::decode_normal","range_dec::RangeDecoder::normalize","range_dec::RangeDecoder::is_finished","lz::lz_decoder::LZDecoder::flush"],"bounds":"stream 00 20 7f fc 00 00 (literal 0x41, declared size 1, no end marker) + one arbitrary foreign byte; lc=lp=pb=0, dict 4096; two read calls; unwind 18","assumes":["LZMADecoder::new replaced by its literal-built stub (natively compared with the real constructor)"],"stubs":["LZMADecoder::new -> verif_fresh_decoder"]}
#[kani::proof]
#[kani::unwind(18)]
#[kani::stub(crate::decoder::LZMADecoder::new, crate::decoder::verif_stubs_dec::verif_fresh_decoder)]
fn c16a_lzma1_reader_one_literal_declared_size() { lzma1_reader_one_literal([0x00, 0x20, 0x7f, 0xfc, 0x00, 0x00], 0x41, false); }

//@ {"name":"c16a_lzma1_reader_one_literal_ff","props":["C16","C01","C03"],"obligation":"C16-A","timeout":900,"mem_gb":9,"tier":"thorough","functions":["lzma_reader::LZMAReader::read_decode","decoder::LZMADecoder::decode","range_dec::RangeDecoder::normalize"],"bounds":"stream 00 7f 7f fc 00 00 (literal 0xFF, declared size 1) + one arbitrary foreign byte; unwind 18","assumes":["constructor stub as above"],"stubs":["LZMADecoder::new -> verif_fresh_decoder"]}
#[kani::proof]
#[kani::unwind(18)]
#[kani::stub(crate::decoder::LZMADecoder::new, crate::decoder::verif_stubs_dec::verif_fresh_decoder)]
fn c16a_lzma1_reader_one_literal_ff() { lzma1_reader_one_literal([0x00, 0x7f, 0x7f, 0xfc, 0x00, 0x00], 0xff, false); }

//@ {"name":"c16a_lzma1_reader_one_literal_end_marker","props":["C16","C01","C03"],"obligation":"C16-A","timeout":1800,"mem_gb":13,"functions":["lzma_reader::LZMAReader::read_decode","decoder::LZMADecoder::decode","decoder::LZMADecoder::decode_match","decoder::LengthCoder::decode","range_dec::RangeDecoder::decode_direct_bits","range_dec::RangeDecoder::decode_reverse_bit_tree","decoder::LZMADecoder::end_marker_detected","range_dec::RangeDecoder::is_finished"],"bounds":"stream 00 20 c3 eb ff ff ff e1 00 00 00 (literal 0x41 + end marker, unknown size) + one arbitrary foreign byte; unwind 34","assumes":["constructor stub as above"],"stubs":["LZMADecoder::new -> verif_fresh_decoder"]}
#[kani::proof]
#[kani::unwind(34)]
#[kani::stub(crate::decoder::LZMADecoder::new, crate::decoder::verif_stubs_dec::verif_fresh_decoder)]
fn c16a_lzma1_reader_one_literal_end_marker() {
    lzma1_reader_one_literal([0x00, 0x20, 0xc3, 0xeb, 0xff, 0xff, 0xff, 0xe1, 0x00, 0x00, 0x00], 0x41, true);
}

// C06-C (K4, read after an error): a hostile .lzma payload whose first symbol is a match with a distance beyond the
// (empty) dictionary: the first read() fails with a data error; every further read() must fail again - it must not
// continue decoding from the half-updated coder state (rep0 unvalidated -> index panic in LZDecoder::get_byte).
// The stream bytes are concrete (they were found natively; a symbolic tail makes CBMC walk every symbol kind of the
// second decode and the harness for it did not finish in 90 min); symbolic: how the caller sizes its second buffer.
//@ {"name":"c06c_lzma1_read_after_error","props":["C06","C05"],"obligation":"C06-C","timeout":1200,"mem_gb":9,"functions":["lzma_reader::LZMAReader::read","lzma_reader::LZMAReader::read_decode","decoder::LZMADecoder::decode","decoder::LZMADecoder::decode_match","lz::lz_decoder::LZDecoder::repeat","lz::lz_decoder::LZDecoder::get_byte"],"bounds":"stream 00 ad 76 36 74 ec 79 cf ea 8b 8e 15 03 fd 9e 1f ff b8 75 4f (concrete), lc=lp=pb=0, dict 4096, unknown size; three read calls into an 8-byte buffer; unwind 24","assumes":["LZMADecoder::new replaced by its literal-built stub (natively compared with the real constructor)"],"stubs":["LZMADecoder::new -> verif_fresh_decoder"],"no_inputs":true}
#[kani::proof]
#[kani::unwind(24)]
#[kani::stub(crate::decoder::LZMADecoder::new, crate::decoder::verif_stubs_dec::verif_fresh_decoder)]
fn c06c_lzma1_read_after_error() {
    let b: [u8; 20] = [0x00, 0xad, 0x76, 0x36, 0x74, 0xec, 0x79, 0xcf, 0xea, 0x8b, 0x8e, 0x15, 0x03, 0xfd, 0x9e, 0x1f, 0xff, 0xb8, 0x75, 0x4f];
    let mut src = Src::<20>::new(b, 20);
    let mut rd = LZMAReader::new(&mut src, u64::MAX, 0, 0, 0, 4096, None).unwrap();
    let mut out = [0u8; 8];
    let r1 = rd.read(&mut out);
    assert!(r1.is_err(), "first symbol is a match into an empty dictionary: must be refused");
    let r2 = rd.read(&mut out);
    assert!(r2.is_err(), "C06-C: read() after a decoding error must keep failing, not decode from the broken state");
    let r3 = rd.read(&mut out);
    assert!(r3.is_err(), "C06-C: read() after a decoding error must keep failing, not decode from the broken state");
    kani::cover!(true, "end reached");
    core::mem::forget(rd);
}
