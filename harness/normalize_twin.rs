//@@ {"inject":"src/lz/lz_encoder.rs","features":"encoder","needs":["gen_simd_models"]}

use super::verif_simd_models::*;

// C14-C: position renormalisation: the scalar path (the only one in no_std builds and for unaligned prefixes/suffixes)
// and every SIMD lane compute the same value for EVERY i32 position and offset.
//@ {"name":"c14c_normalize_scalar_vs_simd_lanes","props":["C14","C13"],"obligation":"C14-C","timeout":900,"functions":["lz::lz_encoder::LZEncoder::normalize","lz::lz_encoder::normalize_scalar","lz::lz_encoder::normalize_avx2 (lane model, lowered)","lz::lz_encoder::normalize_sse41 (lane model, lowered)","lz::lz_encoder::normalize_neon (lane model, lowered)"],"bounds":"8 arbitrary i32 positions, any i32 offset (full width); unwind 10","assumes":["lane models are the lowering of the current SIMD source text, validated natively against real AVX2/SSE4.1 on each run"]}
#[kani::proof]
#[kani::unwind(10)]
fn c14c_normalize_scalar_vs_simd_lanes() {
    let before: [i32; 8] = kani::any();
    let off: i32 = kani::any();
    let mut a = before;
    LZEncoder::normalize(&mut a, off);
    let i: usize = kani::any();
    kani::assume(i < 8);
    assert!(a[i] == model_lane_avx2(before[i], off), "C14-C: scalar renormalisation differs from the AVX2 lanes");
    assert!(a[i] == model_lane_sse41(before[i], off), "C14-C: scalar renormalisation differs from the SSE4.1 lanes");
    assert!(a[i] == model_lane_neon(before[i], off), "C14-C: scalar renormalisation differs from the NEON lanes");
    kani::cover!(before[i] < off && off > 0, "position older than the offset");
    kani::cover!(before[i] > off && off > 0, "position kept");
}
