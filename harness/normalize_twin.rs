//@@ {"inject":"src/lz/lz_encoder.rs","features":"encoder","needs":["gen_simd_models"]}

use super::verif_simd_models::*;

// C14-C: position renormalisation: the scalar path (the only one in no_std builds and for unaligned prefixes/suffixes)
// and every SIMD lane compute the same value for EVERY i32 position and offset.
//@ {"name":"c14c_normalize_scalar_vs_simd_lanes","props":["C13","C14"],"obligation":"C14-C","timeout":900,"functions":["lz::lz_encoder::LZEncoder::normalize","lz::lz_encoder::normalize_scalar","lz::lz_encoder::normalize_avx2 (lane model, lowered)","lz::lz_encoder::normalize_sse41 (lane model, lowered)","lz::lz_encoder::normalize_neon (lane model, lowered)"],"bounds":"8 arbitrary i32 positions, any i32 offset (full width); unwind 10","assumes":["lane models are the lowering of the current SIMD source text, validated natively against real AVX2/SSE4.1 on each run"]}
#[kani::proof]
#[kani::unwind(10)]
fn c14c_normalize_scalar_vs_simd_lanes() {
    let before: [i32; 8] = kani::any();
    let off: i32 = kani::any();
    let mut a = before;
    LZEncoder::normalize(&mut a, off);
    let i: usize = kani::any();
    kani::assume(i < 8);
    assert!(a[i] == model_lane_avx2(before[i], off), "C14-C: scalar renormalisation differs from the AVX2 lanes");
    assert!(a[i] == model_lane_sse41(before[i], off), "C14-C: scalar renormalisation differs from the SSE4.1 lanes");
    assert!(a[i] == model_lane_neon(before[i], off), "C14-C: scalar renormalisation differs from the NEON lanes");
    kani::cover!(before[i] < off && off > 0, "position older than the offset");
    kani::cover!(before[i] > off && off > 0, "position kept");
}

// C14-C (whole slice): every element of a table ends up normalised, whatever the alignment of the table: the unaligned
// prefix and suffix that the SIMD variants hand to the scalar code are part of the model (lowered from the source).
//@ {"name":"c14c_normalize_whole_slice","props":["C14","C13"],"obligation":"C14-C","timeout":1500,"functions":["lz::lz_encoder::LZEncoder::normalize","lz::lz_encoder::normalize_scalar","lz::lz_encoder::normalize_avx2 / normalize_sse41 / normalize_neon (structure + lanes lowered)"],"bounds":"18 arbitrary i32 positions, any i32 offset, unaligned-prefix length 0..=7 (symbolic); unwind 20","assumes":["models lowered from the current source text; prefix length stands for the table's alignment"]}
#[kani::proof]
#[kani::unwind(20)]
fn c14c_normalize_whole_slice() {
    let before: [i32; 18] = kani::any();
    let off: i32 = kani::any();
    let pre: usize = kani::any();
    kani::assume(pre <= 7);
    let mut want = before;
    LZEncoder::normalize(&mut want, off); // this (no_std) build: the scalar definition on every element
    let (mut a, mut b, mut c) = (before, before, before);
    model_normalize_avx2(&mut a, off, pre);
    model_normalize_sse41(&mut b, off, pre);
    model_normalize_neon(&mut c, off, pre);
    let i: usize = kani::any();
    kani::assume(i < 18);
    assert!(a[i] == want[i], "C14-C: an element is not normalised like the scalar definition by the AVX2 variant");
    assert!(b[i] == want[i], "C14-C: an element is not normalised like the scalar definition by the SSE4.1 variant");
    assert!(c[i] == want[i], "C14-C: an element is not normalised like the scalar definition by the NEON variant");
    kani::cover!(i >= 16 && pre == 0, "element in the unaligned suffix");
    kani::cover!(i < pre, "element in the unaligned prefix");
}
