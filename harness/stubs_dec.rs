//@@ {"inject":"src/decoder.rs","mod":"verif_stubs_dec","raw":true,"features":"encoder","selftests":[{"name":"decoder_stub_equals_real","features":"encoder","filter":"verif_selftest_decoder_stub","for":["lzma2_reader","lzma_reader","lzip_reader","lzma2_step","symbol_mirror"]}]}
// Constructor stubs for LZMADecoder::new (DESIGN.md 1.1 rule 1).  The real constructor runs ~2000 `fill` iterations
// in reset() which CBMC cannot get through; the stubs build the same value from array-repeat literals.
// `verif_fresh_decoder` is field-for-field equal to the real constructor (checked natively by the selftest below on
// every run that uses it); `verif_havoc_decoder` leaves the literal sub-decoder tables unconstrained (sound
// over-approximation for harnesses that never decode a symbol).
#[cfg(any(kani, test))]
#[allow(dead_code, unused)]
pub(crate) mod verif_stubs_dec {
    use super::*;
    use crate::{state::State, LZMACoder, LengthCoder, LiteralCoder, LiteralSubCoder, PROB_INIT};

    pub(crate) fn fresh_coder(pb: usize) -> LZMACoder {
        LZMACoder {
            pos_mask: (1 << pb) - 1,
            reps: [0; 4],
            state: State::new(),
            is_match: [[PROB_INIT; 16]; 12],
            is_rep: [PROB_INIT; 12],
            is_rep0: [PROB_INIT; 12],
            is_rep1: [PROB_INIT; 12],
            is_rep2: [PROB_INIT; 12],
            is_rep0_long: [[PROB_INIT; 16]; 12],
            dist_slots: [[PROB_INIT; 64]; 4],
            dist_special: [PROB_INIT; 124],
            dist_align: [PROB_INIT; 16],
        }
    }

    pub(crate) fn fresh_len_coder() -> LengthCoder {
        LengthCoder {
            choice: [PROB_INIT; 2],
            low: [[PROB_INIT; 8]; 16],
            mid: [[PROB_INIT; 8]; 16],
            high: [PROB_INIT; 256],
        }
    }

    pub(crate) fn verif_fresh_decoder(lc: u32, lp: u32, pb: u32) -> LZMADecoder {
        let n = (1usize << (lc + lp)) as usize;
        LZMADecoder {
            coder: fresh_coder(pb as usize),
            literal_decoder: LiteralDecoder {
                coder: LiteralCoder::new(lc, lp),
                sub_decoders: vec![LiteralSubDecoder::new(); n],
            },
            match_len_decoder: fresh_len_coder(),
            rep_len_decoder: fresh_len_coder(),
        }
    }

    pub(crate) fn verif_havoc_decoder(lc: u32, lp: u32, pb: u32) -> LZMADecoder {
        let n = (1usize << (lc + lp)) as usize;
        let mut sub: Vec<LiteralSubDecoder> = Vec::with_capacity(n);
        // contents deliberately left unconstrained (CBMC: nondeterministic); never read by the harnesses using this stub
        unsafe { sub.set_len(n) };
        LZMADecoder {
            coder: fresh_coder(pb as usize),
            literal_decoder: LiteralDecoder { coder: LiteralCoder::new(lc, lp), sub_decoders: sub },
            match_len_decoder: fresh_len_coder(),
            rep_len_decoder: fresh_len_coder(),
        }
    }

    /// Puts the coder into an arbitrary (state, reps) configuration - the "arbitrary pre-state" idiom for step harnesses.
    pub(crate) fn verif_set_state(d: &mut LZMADecoder, state: u8, reps: [i32; 4]) {
        d.coder.state = State::from(state);
        d.coder.reps = reps;
    }

    pub(crate) fn verif_get_state(d: &LZMADecoder) -> (u8, [i32; 4]) {
        (d.coder.state.get(), d.coder.reps)
    }

    pub(crate) fn decoders_equal(a: &LZMADecoder, b: &LZMADecoder) -> bool {
        let c = |x: &LZMACoder, y: &LZMACoder| {
            x.pos_mask == y.pos_mask && x.reps == y.reps && x.state == y.state && x.is_match == y.is_match
                && x.is_rep == y.is_rep && x.is_rep0 == y.is_rep0 && x.is_rep1 == y.is_rep1 && x.is_rep2 == y.is_rep2
                && x.is_rep0_long == y.is_rep0_long && x.dist_slots == y.dist_slots
                && x.dist_special == y.dist_special && x.dist_align == y.dist_align
        };
        let l = |x: &LengthCoder, y: &LengthCoder| x.choice == y.choice && x.low == y.low && x.mid == y.mid && x.high == y.high;
        c(&a.coder, &b.coder)
            && l(&a.match_len_decoder, &b.match_len_decoder)
            && l(&a.rep_len_decoder, &b.rep_len_decoder)
            && a.literal_decoder.coder.lc == b.literal_decoder.coder.lc
            && a.literal_decoder.coder.literal_pos_mask == b.literal_decoder.coder.literal_pos_mask
            && a.literal_decoder.sub_decoders.len() == b.literal_decoder.sub_decoders.len()
            && a.literal_decoder.sub_decoders.iter().zip(b.literal_decoder.sub_decoders.iter()).all(|(p, q)| p.coder.probs == q.coder.probs)
    }

    #[cfg(test)]
    #[test]
    fn verif_selftest_decoder_stub() {
        for lc in 0..=8u32 {
            for lp in 0..=4u32 {
                for pb in 0..=4u32 {
                    let real = LZMADecoder::new(lc, lp, pb);
                    let stub = verif_fresh_decoder(lc, lp, pb);
                    assert!(decoders_equal(&real, &stub), "stub differs from LZMADecoder::new({lc},{lp},{pb})");
                }
            }
        }
    }
}
