//@@ {"inject":"src/range_dec.rs","mod":"verif_api_range_dec","raw":true,"always":true}
// Access to RangeDecoder's / RangeDecoderBuffer's private fields for harnesses in other modules (cfg(kani) only).
#[cfg(kani)]
#[allow(dead_code)]
impl<R> RangeDecoder<R> {
    pub(crate) fn verif_from_parts(inner: R, range: u32, code: u32) -> Self { Self { inner, range, code } }
    pub(crate) fn verif_range(&self) -> u32 { self.range }
    pub(crate) fn verif_code(&self) -> u32 { self.code }
    pub(crate) fn verif_inner(&self) -> &R { &self.inner }
    pub(crate) fn verif_inner_mut(&mut self) -> &mut R { &mut self.inner }
}
#[cfg(kani)]
#[allow(dead_code)]
impl RangeDecoderBuffer {
    pub(crate) fn verif_from_parts(buf: Vec<u8>, pos: usize) -> Self { Self { buf, pos } }
    pub(crate) fn verif_pos(&self) -> usize { self.pos }
    pub(crate) fn verif_len(&self) -> usize { self.buf.len() }
}
