//@@ {"inject":"src/lzip.rs","features":"encoder,lzip"}

// C02-A: the dictionary byte the LZIP writer puts in the member header must describe a dictionary at least as
// large as the one the encoder searched with (otherwise the decoder's window is too small for long distances).
//@ {"name":"c02a_lzip_dict_byte_covers","props":["C02","C03"],"obligation":"C02-A","timeout":300,"functions":["lzip::encode_dict_size","lzip::decode_dict_size"],"bounds":"dict_size: every u32 (full width); no loops","assumes":[]}
#[kani::proof]
fn c02a_lzip_dict_byte_covers() {
    let d: u32 = kani::any();
    if let Ok(b) = encode_dict_size(d) {
        let r = decode_dict_size(b);
        assert!(r.is_ok(), "C02-A: emitted dictionary byte is rejected by the crate's own header parser");
        let d2 = r.unwrap();
        assert!(d2 >= d, "C02-A: header dictionary smaller than the encoder's dictionary");
        assert!((d2 as u64) < 2 * (d as u64), "C02-A: header dictionary more than twice the requested one");
        kani::cover!(d2 > d, "inexact size rounded");
        kani::cover!(d2 == d && (b >> 5) != 0, "exact size with non-zero fraction");
    }
    kani::cover!(true, "end reached");
}

// C02-A / C19-D: every size in the documented LZIP range is encodable (LZIPWriter::new clamps into that range and
// start_new_member propagates the error, so an Err here makes a writer with in-range options unusable).
//@ {"name":"c02a_lzip_dict_byte_total","props":["C02","C19"],"obligation":"C02-A","timeout":300,"functions":["lzip::encode_dict_size"],"bounds":"dict_size: every u32","assumes":[]}
#[kani::proof]
fn c02a_lzip_dict_byte_total() {
    let d: u32 = kani::any();
    let r = encode_dict_size(d);
    if (MIN_DICT_SIZE..=MAX_DICT_SIZE).contains(&d) {
        assert!(r.is_ok(), "C02-A: in-range LZIP dictionary size refused");
    } else {
        assert!(r.is_err(), "C02-A: out-of-range LZIP dictionary size accepted");
    }
    kani::cover!(r.is_ok(), "accepted");
    kani::cover!(r.is_err(), "refused");
}

// C06-F: header dictionary byte decoder is total and stays in the documented range.
//@ {"name":"c06f_lzip_decode_dict_total","props":["C06","C02"],"obligation":"C06-F","timeout":300,"functions":["lzip::decode_dict_size"],"bounds":"encoded byte: every u8","assumes":[]}
#[kani::proof]
fn c06f_lzip_decode_dict_total() {
    let b: u8 = kani::any();
    match decode_dict_size(b) {
        Ok(d) => {
            assert!((MIN_DICT_SIZE..=MAX_DICT_SIZE).contains(&d));
            // re-encoding an exactly representable size gives a byte that decodes to the same size
            let b2 = encode_dict_size(d);
            assert!(b2.is_ok());
            assert!(decode_dict_size(b2.unwrap()).unwrap() == d);
            kani::cover!((b >> 5) == 7, "largest fraction");
        }
        Err(e) => assert!(is_invalid_data(&e)),
    }
    kani::cover!(true, "end reached");
}
