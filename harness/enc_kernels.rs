//@@ {"inject":"src/enc/encoder.rs","features":"encoder"}

use crate::DIST_SLOTS;

// C01-C: distance slot arithmetic for EVERY u32 distance: the slot/footer decomposition used by encode_match is
// lossless and is exactly what decode_match reassembles.
//@ {"name":"c01c_dist_slot_all_u32","props":["C01","C19"],"obligation":"C01-C","timeout":600,"functions":["enc::encoder::LZMAEncoder::get_dist_slot"],"bounds":"dist: every u32 (full width); no loops","assumes":[]}
#[kani::proof]
fn c01c_dist_slot_all_u32() {
    let dist: u32 = kani::any();
    let slot = LZMAEncoder::get_dist_slot(dist);
    assert!((slot as usize) < DIST_SLOTS, "C01-C: distance slot out of the 6-bit range");
    if dist < DIST_MODEL_START as u32 {
        assert!(slot == dist);
    } else {
        let footer_bits = (slot >> 1) - 1;
        let base = (2 | (slot & 1)) << footer_bits;
        assert!(base <= dist, "C01-C: dist - base underflows in encode_match");
        let reduced = dist - base;
        assert!((reduced as u64) < (1u64 << footer_bits), "C01-C: reduced distance does not fit the footer bits");
        // decoder side (decode_match): (2 | (slot & 1)) << limit | footer  -- i32 arithmetic there
        let rebuilt = (((2 | (slot as i32 & 1)) << footer_bits) | reduced as i32) as u32;
        assert!(rebuilt == dist, "C01-C: decoder reassembles a different distance");
        if slot as usize >= DIST_MODEL_END {
            assert!(footer_bits >= ALIGN_BITS as u32, "C01-C: direct-bit count underflows");
        }
        kani::cover!(slot == 63, "largest slot");
        kani::cover!(slot as usize == DIST_MODEL_END, "first slot with direct bits");
    }
    kani::cover!(dist == u32::MAX, "end marker distance");
}

// C19-A / C17: the size arithmetic LZMAEncoder::new delegates to, for EVERY value of the public option fields.
// "documented" ranges: dict_size 4096..=DICT_SIZE_MAX, nice_len 8..=273; everything else must not panic either
// (C19: out-of-range options are rejected or harmless, never a panic) -- that part is a separate harness below.
//@ {"name":"c19a_lz_sizes_in_range","props":["C19","C17","C01"],"obligation":"C19-A","timeout":900,"functions":["lz::lz_encoder::get_buf_size","lz::hash234::Hash234::get_hash4_size","lz::hash234::Hash234::get_mem_usage","lz::hc4::HC4::get_mem_usage","lz::bt4::BT4::get_mem_usage","enc::lzma2_writer::get_extra_size_before","lz::lz_encoder::LZEncoder::get_memory_usage"],"bounds":"dict_size: every value in [4096, 1.5 GiB]; mode and match finder symbolic","assumes":["dict_size <= 1.5 GiB (the reference implementation's encoder limit; above it i32 positions cannot address the window)"]}
#[kani::proof]
fn c19a_lz_sizes_in_range() {
    let dict: u32 = kani::any();
    kani::assume(dict >= 4096 && dict <= (3 << 29));
    let fast: bool = kani::any();
    let hc4: bool = kani::any();
    let mode = if fast { EncodeMode::Fast } else { EncodeMode::Normal };
    let mf = if hc4 { MFType::HC4 } else { MFType::BT4 };
    // LZMAOptions::get_memory_usage path (public estimator)
    let eb = crate::enc::lzma2_writer::get_extra_size_before(dict);
    let kib = LZMAEncoder::get_mem_usage(mode, dict, eb, mf);
    assert!(kib > 0);
    kani::cover!(dict == (3 << 29), "largest supported dictionary");
}

// C19-A: dictionary sizes outside the documented range still must not panic in the estimator the caller would use to
// decide whether the options are usable.
//@ {"name":"c19a_estimator_any_dict","props":["C19","C17"],"obligation":"C19-A","timeout":900,"functions":["enc::lzma2_writer::LZMAOptions::get_memory_usage","enc::encoder::LZMAEncoder::get_mem_usage","lz::lz_encoder::get_buf_size","lz::hash234::Hash234::get_hash4_size"],"bounds":"dict_size: every u32; mode and match finder symbolic","assumes":[]}
#[kani::proof]
fn c19a_estimator_any_dict() {
    let dict: u32 = kani::any();
    let fast: bool = kani::any();
    let hc4: bool = kani::any();
    let o = crate::LZMAOptions::new(dict, 3, 0, 2, if fast { EncodeMode::Fast } else { EncodeMode::Normal }, 64, if hc4 { MFType::HC4 } else { MFType::BT4 }, 0);
    let kib = o.get_memory_usage();
    assert!(kib >= 150);
    kani::cover!(dict == 0, "zero dictionary");
    kani::cover!(dict == u32::MAX, "largest value");
}

// C19-A: props byte: for every lc/lp/pb a caller can store, what LZMAOptions::get_props emits is decoded by the
// readers' props arithmetic to the same lc/lp/pb whenever the options are in range (lc<=8, lp<=4, pb<=4).
//@ {"name":"c19a_props_byte_roundtrip","props":["C19","C02","C03"],"obligation":"C19-A","timeout":600,"functions":["enc::lzma2_writer::LZMAOptions::get_props"],"bounds":"lc, lp, pb: every u32","assumes":[]}
#[kani::proof]
fn c19a_props_byte_roundtrip() {
    let (lc, lp, pb): (u32, u32, u32) = (kani::any(), kani::any(), kani::any());
    kani::assume(lc <= 64 && lp <= 64 && pb <= 64); // beyond that the u32 product overflows: owned by c19a_props_byte_total
    let o = crate::LZMAOptions::new(4096, lc, lp, pb, EncodeMode::Fast, 32, MFType::HC4, 0);
    let p = o.get_props();
    if lc <= 8 && lp <= 4 && pb <= 4 {
        // reader arithmetic (LZMAReader::construct1 / LZMA2Reader::decode_props)
        assert!(p <= 224);
        let pb2 = p / 45;
        let r = p - pb2 * 45;
        let lp2 = r / 9;
        let lc2 = r - lp2 * 9;
        assert!(pb2 as u32 == pb && lp2 as u32 == lp && lc2 as u32 == lc, "C19-A: props byte does not round-trip");
    }
    kani::cover!(lc == 8 && lp == 4 && pb == 4, "largest in-range props");
}

//@ {"name":"c19a_props_byte_total","props":["C19"],"obligation":"C19-A","timeout":600,"functions":["enc::lzma2_writer::LZMAOptions::get_props"],"bounds":"lc, lp, pb: every u32","assumes":[]}
#[kani::proof]
fn c19a_props_byte_total() {
    let (lc, lp, pb): (u32, u32, u32) = (kani::any(), kani::any(), kani::any());
    let o = crate::LZMAOptions::new(4096, lc, lp, pb, EncodeMode::Fast, 32, MFType::HC4, 0);
    let _ = o.get_props();
    kani::cover!(pb == u32::MAX, "huge pb");
}

// C17-A: encoder-side estimator versus the bytes the real LZ encoder constructor allocates (sizes read back from the
// really constructed object; CBMC allocates symbolic-size zeroed objects without cost proportional to the size).
fn lz_estimator(hc4: bool) {
    let dict: u32 = kani::any();
    kani::assume(dict >= 4096 && dict <= (1 << 30));
    let fast: bool = kani::any();
    let (eb, ea) = if fast {
        (FastEncoderMode::EXTRA_SIZE_BEFORE, FastEncoderMode::EXTRA_SIZE_AFTER)
    } else {
        (NormalEncoderMode::EXTRA_SIZE_BEFORE, NormalEncoderMode::EXTRA_SIZE_AFTER)
    };
    let mf = if hc4 { MFType::HC4 } else { MFType::BT4 };
    let est_kib = LZEncoder::get_memory_usage(dict, eb, ea, MATCH_LEN_MAX as u32, mf) as u64;
    let lz = if hc4 {
        LZEncoder::new_hc4(dict, eb, ea, 64, MATCH_LEN_MAX as u32, 0)
    } else {
        LZEncoder::new_bt4(dict, eb, ea, 64, MATCH_LEN_MAX as u32, 0)
    };
    let window = lz.data.buf.len() as u64;
    // hash tables: 2^10 + 2^16 + hash4 entries of 4 bytes; chain: dict+1 entries (HC4) or 2*(dict+1) (BT4)
    let mut h = dict - 1;
    h |= h >> 1; h |= h >> 2; h |= h >> 4; h |= h >> 8; h >>= 1; h |= 0xFFFF;
    if h > (1 << 24) { h >>= 1; }
    let hash_bytes = 4 * ((1u64 << 10) + (1 << 16) + h as u64 + 1);
    let chain_bytes = 4 * (dict as u64 + 1) * if hc4 { 1 } else { 2 };
    let real = window + hash_bytes + chain_bytes;
    assert!(est_kib * 1024 >= real, "C17-A: estimator below the bytes the LZ encoder really allocates");
    assert!(est_kib * 1024 <= 2 * real + (1 << 20), "C17-A: estimator not within a small constant factor of the real allocation");
    kani::cover!(dict == (1 << 30), "1 GiB dictionary");
    kani::cover!(dict == 4096, "smallest dictionary");
    core::mem::forget(lz);
}

//@ {"name":"c17a_lz_estimator_hc4","props":["C17"],"obligation":"C17-A","timeout":900,"playback_mem_gb":30,"functions":["lz::lz_encoder::LZEncoder::get_memory_usage","lz::lz_encoder::LZEncoder::new_hc4","lz::lz_encoder::get_buf_size","lz::hc4::HC4::new","lz::hash234::Hash234::new"],"bounds":"dict_size every value in [4096, 1 GiB]; Fast/Normal extra sizes symbolic; nice_len 64","assumes":["hash/chain table byte sizes are restated from Hash234::new/HC4::new (the tables themselves are private to their modules)"]}
#[kani::proof]
fn c17a_lz_estimator_hc4() { lz_estimator(true); }

//@ {"name":"c17a_lz_estimator_bt4","props":["C17"],"obligation":"C17-A","timeout":900,"playback_mem_gb":30,"functions":["lz::lz_encoder::LZEncoder::get_memory_usage","lz::lz_encoder::LZEncoder::new_bt4","lz::bt4::BT4::new"],"bounds":"dict_size every value in [4096, 1 GiB]; Fast/Normal extra sizes symbolic; nice_len 64","assumes":["hash/tree table byte sizes restated from Hash234::new/BT4::new"]}
#[kani::proof]
fn c17a_lz_estimator_bt4() { lz_estimator(false); }

// C19-A: LZEncoder construction with nice_len at and outside its documented range.
//@ {"name":"c19a_lz_new_any_nice_len","props":["C19"],"obligation":"C19-A","timeout":900,"functions":["lz::lz_encoder::LZEncoder::new_hc4","lz::lz_encoder::Matches::new","enc::encoder::LengthEncoder::new"],"bounds":"nice_len: every u32 <= 4096; dict 4096; pb 0..=4","assumes":[]}
#[kani::proof]
#[kani::unwind(18)]
fn c19a_lz_new_any_nice_len() {
    let nice: u32 = kani::any();
    kani::assume(nice <= 4096);
    let lz = LZEncoder::new_hc4(4096, 1, 272, nice, MATCH_LEN_MAX as u32, 4);
    assert!(lz.matches.len.len() as u64 + 1 == nice as u64);
    let pb: u32 = kani::any();
    kani::assume(pb <= 4);
    let le = LengthEncoder::new(pb, nice as usize);
    kani::cover!(nice == 0, "nice_len zero");
    kani::cover!(nice == 1, "nice_len one");
    core::mem::forget(lz);
    core::mem::forget(le);
}

// C17-B: the public encoder estimator LZMAOptions::get_memory_usage() covers every table the encoder allocates for the
// same options, including the literal coder (0x300 u16 per sub-coder, 2^(lc+lp) sub-coders).
//@ {"name":"c17b_options_estimator_covers_tables","props":["C17"],"obligation":"C17-B","timeout":900,"functions":["enc::lzma2_writer::LZMAOptions::get_memory_usage","enc::encoder::LZMAEncoder::get_mem_usage","enc::encoder_fast::FastEncoderMode::get_memory_usage","enc::encoder_normal::NormalEncoderMode::get_memory_usage","lz::lz_encoder::LZEncoder::get_memory_usage"],"bounds":"dict_size any value in [4096, 1 GiB]; lc 0..=8, lp 0..=4 (the LZMA1 writer accepts all of them), pb 0..=4; both modes and match finders","assumes":["table sizes restated from the constructors (LiteralEncoder::new: 2^(lc+lp) sub-coders of 0x300 u16; LZEncoder sizes as in c17a, which reads them back from the real object)"]}
#[kani::proof]
fn c17b_options_estimator_covers_tables() {
    let dict: u32 = kani::any();
    kani::assume(dict >= 4096 && dict <= (1 << 30));
    let (lc, lp, pb): (u32, u32, u32) = (kani::any(), kani::any(), kani::any());
    kani::assume(lc <= 8 && lp <= 4 && pb <= 4);
    let fast: bool = kani::any();
    let hc4: bool = kani::any();
    let o = crate::LZMAOptions::new(dict, lc, lp, pb, if fast { EncodeMode::Fast } else { EncodeMode::Normal }, 64, if hc4 { MFType::HC4 } else { MFType::BT4 }, 0);
    let est = o.get_memory_usage() as u64 * 1024;
    let literal_tables = (0x300u64 * 2) << (lc + lp);
    let eb = core::cmp::max(crate::enc::lzma2_writer::get_extra_size_before(dict), if fast { 1 } else { 4096 });
    let ea = if fast { 272u64 } else { 4096 };
    let window = eb as u64 + dict as u64 + ea + 273 + core::cmp::min(dict as u64 / 2 + (256 << 10), 512 << 20);
    let mut h = dict - 1;
    h |= h >> 1; h |= h >> 2; h |= h >> 4; h |= h >> 8; h >>= 1; h |= 0xFFFF;
    if h > (1 << 24) { h >>= 1; }
    let hash = 4 * ((1u64 << 10) + (1 << 16) + h as u64 + 1);
    let chain = 4 * (dict as u64 + 1) * if hc4 { 1 } else { 2 };
    let need = literal_tables + window + hash + chain;
    assert!(est >= need, "C17-B: LZMAOptions::get_memory_usage() is below the tables the encoder allocates for these options");
    kani::cover!(lc + lp == 12, "largest literal coder");
    kani::cover!(lc + lp <= 4, "LZMA2-compatible options");
}

// C03-C / C01-E: LZMA2 chunk limits: the encoder closes a chunk when its running sizes exceed the two limits; one more
// symbol (at most MATCH_LEN_MAX bytes of input, at most 26+4 bytes of range coder output incl. the 5-byte flush margin)
// may still be added, and the result must fit the chunk header fields (21 and 16 bits).
//@ {"name":"c03c_lzma2_chunk_limits","props":["C03","C01","C16"],"obligation":"C03-C","timeout":600,"functions":["enc::encoder::LZMA2_UNCOMPRESSED_LIMIT","enc::encoder::LZMA2_COMPRESSED_LIMIT","enc::encoder::LZMAEncoder::encode_for_lzma2 (loop condition)","enc::range_enc::RangeEncoder::get_pending_size"],"bounds":"running uncompressed size any value <= limit, last symbol length 1..=273; pending compressed size any value <= limit, last symbol adds at most 26 bytes","assumes":["one LZMA symbol codes at most MATCH_LEN_MAX = 273 input bytes and emits at most 26 bytes (the margin the original constant documents)"]}
#[kani::proof]
fn c03c_lzma2_chunk_limits() {
    let us: u32 = kani::any();
    let len: u32 = kani::any();
    kani::assume(us <= LZMA2_UNCOMPRESSED_LIMIT && len >= 1 && len <= MATCH_LEN_MAX as u32);
    let total = us + len;
    assert!(total <= (1 << 21), "C03-C: an LZMA2 chunk can exceed 2 MiB of uncompressed data");
    // header encoding used by write_lzma: 5 bits in the control byte + 16 bits
    assert!(((total - 1) >> 16) <= 0x1F, "C03-C: uncompressed size does not fit the chunk header");
    let cs: u32 = kani::any();
    let add: u32 = kani::any();
    kani::assume(cs <= LZMA2_COMPRESSED_LIMIT && add <= 26);
    assert!(cs + add <= (1 << 16), "C03-C: an LZMA2 chunk can exceed 64 KiB of compressed data");
    kani::cover!(total == (1 << 21), "chunk of exactly 2 MiB");
    kani::cover!(cs + add == (1 << 16), "chunk of exactly 64 KiB");
}

// C03 / C01: literal sub-coder selection: shared by encoder and decoder, so a wrong formula still round-trips with
// itself - it must equal the LZMA specification's formula (what every other implementation uses):
//   index = ((pos & (2^lp - 1)) << lc) + (prev_byte >> (8 - lc)).
//@ {"name":"c03_literal_subcoder_index_spec","props":["C03","C01"],"obligation":"C03-B","timeout":600,"functions":["LiteralCoder::new","LiteralCoder::get_sub_coder_index"],"bounds":"lc 0..=8, lp 0..=4, prev_byte any u8, pos any u32","assumes":["lc, lp inside the ranges every constructor enforces"]}
#[kani::proof]
fn c03_literal_subcoder_index_spec() {
    let (lc, lp): (u32, u32) = (kani::any(), kani::any());
    kani::assume(lc <= 8 && lp <= 4);
    let prev: u8 = kani::any();
    let pos: u32 = kani::any();
    let c = LiteralCoder::new(lc, lp);
    let got = c.get_sub_coder_index(prev as u32, pos);
    let want = ((pos & ((1u32 << lp) - 1)) << lc) + ((prev as u32) >> (8 - lc));
    assert!(got == want, "C03: literal sub-coder index differs from the LZMA specification");
    assert!(got < (1 << (lc + lp)), "C01: literal sub-coder index outside the table");
    kani::cover!(lc == 2 && lp == 2 && got != 0, "non-default lc/lp");
}
