//@@ {"inject":"src/lz/aligned_memory.rs","features":"encoder,optimization"}

// C13-A / C14-D / C15-D: the aligned table is at least as long as requested, zero-initialised (Kani models non-zeroed
// allocations as arbitrary, so `alloc_zeroed -> alloc` fails this), every index inside the allocation, drop is clean.
//@ {"name":"c13a_aligned_memory_zeroed","props":["C13","C14","C15"],"obligation":"C13-A","timeout":900,"functions":["lz::aligned_memory::AlignedMemoryI32::new","lz::aligned_memory::AlignedMemoryI32::deref","lz::aligned_memory::AlignedMemoryI32::deref_mut","lz::aligned_memory::AlignedMemoryI32::drop"],"bounds":"requested length 1..=64 (symbolic); symbolic index","assumes":["min_length >= 1 (all call sites pass table sizes >= 1024)"]}
#[kani::proof]
#[kani::unwind(4)]
fn c13a_aligned_memory_zeroed() {
    let n: usize = kani::any();
    kani::assume(n >= 1 && n <= 64);
    let mut m = AlignedMemoryI32::new(n);
    assert!(m.len() >= n, "C14-D: table shorter than requested");
    assert!(m.len() % 16 == 0 && m.len() < n + 16);
    assert!(m.layout.size() == m.len() * 4 && m.layout.align() == 64);
    let i: usize = kani::any();
    kani::assume(i < m.len());
    assert!(m[i] == 0, "C13-A: match-finder table not zero-initialised");
    let v: i32 = kani::any();
    m[i] = v;
    assert!(m[i] == v);
    let j: usize = kani::any();
    kani::assume(j < m.len() && j != i);
    assert!(m[j] == 0);
    kani::cover!(n == 64, "largest");
    kani::cover!(n % 16 != 0, "rounded up");
    drop(m);
}

// C15-D: layout arithmetic for realistic table sizes (hash tables up to 2^25 entries, BT4 tree up to 2*(1.5 GiB + 1)).
//@ {"name":"c15d_aligned_memory_layout","props":["C15","C19"],"obligation":"C15-D","timeout":900,"functions":["lz::aligned_memory::AlignedMemoryI32::new"],"bounds":"requested length any value in [1, 2^32]","assumes":[]}
#[kani::proof]
#[kani::unwind(4)]
fn c15d_aligned_memory_layout() {
    let n: usize = kani::any();
    kani::assume(n >= 1 && n <= (1usize << 32));
    let m = AlignedMemoryI32::new(n);
    assert!(m.len() >= n && m.layout.size() >= n * 4);
    // the slice handed out by deref() must not be longer than the allocation behind it
    assert!(m.layout.size() == m.len() * 4 && m.layout.align() == 64, "C15-D: table slice longer than (or laid out differently from) its allocation");
    kani::cover!(n == (1usize << 32), "largest");
    core::mem::forget(m);
}
