//@@ {"inject":"src/lz/bt4.rs","features":"encoder","needs":["api_hash234"]}

// BT4 step harnesses: ONE real `find_matches` / `skip` from an arbitrary match-finder state under the table invariant
// T1-T4 of harness/mf_hc4.rs (for the tree: both children of a node are older than the node).  The binary-tree *ordering*
// invariant (a node's subtree shares min(len0, len1) bytes with the current position) is NOT assumed, so truth of the reported
// matches is asserted for search depth <= 2 (where `len` always restarts from 0); for depth 3 only bounds / memory safety.

use crate::lz::LZEncoderData;


fn live(lz_next: i32, e: i32, cyclic_size: i32) -> bool {
    lz_next - e < cyclic_size
}

fn any_bt4<const WB: usize>(dict: u32, mlm: u32, nice_len: u32, depth: i32) -> (LZEncoderData, [u8; WB], BT4) {
    let content: [u8; WB] = kani::any();
    let d = LZEncoderData {
        keep_size_before: dict,
        keep_size_after: mlm,
        match_len_max: mlm,
        nice_len,
        buf: content.to_vec(),
        buf_size: WB,
        buf_limit_u16: WB - 2,
        read_pos: kani::any(),
        read_limit: kani::any(),
        finishing: kani::any(),
        write_pos: kani::any(),
        pending_size: kani::any(),
    };
    kani::assume(d.read_pos >= -1 && d.read_pos < d.write_pos && d.write_pos as usize <= WB);
    kani::assume(d.pending_size <= 4);
    let mut mf = BT4::new(dict, nice_len, depth);
    assert!(mf.cyclic_size == dict as i32 + 1);
    mf.lz_pos = kani::any();
    mf.cyclic_pos = kani::any();
    kani::assume(mf.lz_pos >= mf.cyclic_size && mf.lz_pos < 0x7FFF_FFFE);
    kani::assume(mf.cyclic_pos >= -1 && mf.cyclic_pos < mf.cyclic_size);
    (d, content, mf)
}

fn will_hash(d: &LZEncoderData) -> bool {
    let avail = d.write_pos - (d.read_pos + 1);
    !(avail < d.nice_len as i32 && (avail < 4 || !d.finishing))
}

fn havoc_tables<const WB: usize>(d: &LZEncoderData, content: &[u8; WB], mf: &mut BT4, n_tree: usize) {
    use crate::lz::hash234::verif_h234 as st;
    st::reset();
    let rp = d.read_pos + 1;
    let lz_next = mf.lz_pos + 1;
    let cs = mf.cyclic_size;
    if !will_hash(d) {
        return;
    }
    mf.hash.calc_hashes(&content[rp as usize..]);
    let cur = mf.hash.verif_values();
    for t in 0..3usize {
        let e: i32 = kani::any();
        kani::assume(e >= 0 && e <= mf.lz_pos); // T1
        if live(lz_next, e, cs) {
            let delta = lz_next - e;
            kani::assume(delta <= rp); // T2
            mf.hash.calc_hashes(&content[(rp - delta) as usize..]);
            let (h2, h3, h4) = mf.hash.verif_values();
            kani::assume(if t == 0 { h2 == cur.0 } else if t == 1 { h3 == cur.1 } else { h4 == cur.2 }); // T3
        }
        unsafe { st::ENTRY[t] = e; }
    }
    let cp_next = if mf.cyclic_pos + 1 == cs { 0 } else { mf.cyclic_pos + 1 };
    for _ in 0..n_tree {
        let ti: i32 = kani::any();
        let tv: i32 = kani::any();
        kani::assume(ti >= 0 && ti < 2 * cs);
        let ci = ti / 2;
        let back = if cp_next >= ci { cp_next - ci } else { cp_next - ci + cs };
        kani::assume(tv >= 0 && tv < lz_next - back); // T1 + T4
        if live(lz_next, tv, cs) {
            kani::assume(lz_next - tv <= rp); // T2
        }
        mf.tree[ti as usize] = tv;
    }
}

fn check_matches<const WB: usize>(d: &LZEncoderData, content: &[u8; WB], m: &Matches, limit: i32, cs: i32, truth: bool) {
    let rp = d.read_pos;
    assert!(m.count as usize <= m.len.len(), "C01-H: more matches than the Matches arrays hold");
    let i: usize = kani::any();
    kani::assume(i < m.count as usize);
    let len = m.len[i] as i32;
    let dist = m.dist[i];
    assert!(len >= 2 && len <= limit, "C01-H: match length outside 2..=min(match_len_max, avail)");
    assert!(dist >= 0 && dist + 1 < cs, "C01-H: match distance outside the dictionary");
    assert!(dist + 1 <= rp, "C15: match source starts before the window buffer");
    assert!(rp + len <= d.write_pos, "C15: match extends beyond the bytes written to the window");
    if truth {
        let j: i32 = kani::any();
        kani::assume(j >= 0 && j < len);
        assert!(content[(rp + j) as usize] == content[(rp - dist - 1 + j) as usize],
            "C01-H: match finder reported a (distance, length) pair whose bytes do not match");
    }
    if i + 1 < m.count as usize {
        assert!(m.len[i + 1] > m.len[i], "C01-H: match lengths not strictly increasing");
    }
}

fn bt4_find_matches_step<const WB: usize>(dict: u32, mlm: u32, nice_len: u32, depth: i32, truth: bool) {
    let (mut d, content, mut mf) = any_bt4::<WB>(dict, mlm, nice_len, depth);
    havoc_tables(&d, &content, &mut mf, depth as usize);
    let hashing = will_hash(&d);
    let (rp0, lz0, cp0, pend0) = (d.read_pos, mf.lz_pos, mf.cyclic_pos, d.pending_size);
    let cs = mf.cyclic_size;
    let mut m = Matches::new(nice_len as usize - 1);
    mf.find_matches(&mut d, &mut m);
    assert!(d.read_pos == rp0 + 1, "C01-H: find_matches must advance the window by exactly one byte");
    let avail = d.write_pos - d.read_pos;
    if !hashing {
        assert!(m.count == 0 && d.pending_size == pend0 + 1 && mf.lz_pos == lz0 && mf.cyclic_pos == cp0,
            "C01-H: a position without enough look-ahead must become pending and leave the finder untouched");
    } else {
        assert!(d.pending_size == pend0);
        assert!(mf.lz_pos == lz0 + 1);
        assert!(mf.cyclic_pos == if cp0 + 1 == cs { 0 } else { cp0 + 1 });
        let limit = if avail < mlm as i32 { avail } else { mlm as i32 };
        check_matches(&d, &content, &m, limit, cs, truth);
        unsafe {
            use crate::lz::hash234::verif_h234 as st;
            assert!(st::UPD_CALLS == 1 && st::UPD_POS == mf.lz_pos, "C01-H: hash tables not updated (exactly once) with the current position");
        }
        // the node of the current position only points to older positions (T4 re-established)
        let c0 = mf.tree[(2 * mf.cyclic_pos) as usize];
        let c1 = mf.tree[(2 * mf.cyclic_pos + 1) as usize];
        assert!(c0 >= 0 && c0 < mf.lz_pos && c1 >= 0 && c1 < mf.lz_pos, "C01-H: tree node of the current position points to itself or the future");
        kani::cover!(m.count == 1, "one match");
        kani::cover!(m.count == 2, "two matches");
        kani::cover!(m.count == 3, "three matches (hash2, hash3, tree)");
        kani::cover!(m.count > 0 && m.dist[m.count as usize - 1] + 1 == dict as i32, "match at the maximum distance");
        kani::cover!(avail < mlm as i32, "look-ahead shorter than match_len_max while finishing");
    }
    let k: usize = kani::any();
    kani::assume(k < WB);
    assert!(d.buf[k] == content[k], "C01-H: match finder modified the window");
    kani::cover!(!hashing, "pending position");
    core::mem::forget(d);
    core::mem::forget(mf);
    core::mem::forget(m);
}

//@ {"replay":"model","name":"c01h_bt4_find_matches_sound","tier":"thorough","props":["C01","C15","C13"],"obligation":"C01-H","stubbing":true,"stubs":["Hash234 table accessors -> environment stub (harness/api_hash234.rs)"],"timeout":7200,"mem_gb":9,"feature_variants":["encoder","encoder,optimization"],"functions":["lz::bt4::BT4::find_matches","lz::bt4::BT4::move_pos","lz::bt4::BT4::new","lz::hash234::Hash234::calc_hashes","lz::hash234::Hash234::update_tables","lz::lz_encoder::LZEncoderData::move_pos","lz::extend_match","lz::extend_match_safe"],"bounds":"dictionary 12 (cyclic_size 13), 40-byte window with arbitrary content, match_len_max 8, nice_len 8, depth limit 2; any read_pos/write_pos/finishing/pending, any lz_pos in [cyclic_size, 2^31-3], any cyclic_pos; one arbitrary admissible entry per hash table, two tree slots (all the call can read); unwind 12","assumes":["table invariant T1-T4 (harness/mf_hc4.rs header)","no position renormalisation in this step"]}
#[kani::proof]
#[kani::unwind(12)]
#[kani::stub(crate::lz::hash234::Hash234::get_hash2_pos, crate::lz::hash234::verif_h234::get2)]
#[kani::stub(crate::lz::hash234::Hash234::get_hash3_pos, crate::lz::hash234::verif_h234::get3)]
#[kani::stub(crate::lz::hash234::Hash234::get_hash4_pos, crate::lz::hash234::verif_h234::get4)]
#[kani::stub(crate::lz::hash234::Hash234::update_tables, crate::lz::hash234::verif_h234::update)]
fn c01h_bt4_find_matches_sound() {
    bt4_find_matches_step::<40>(12, 8, 8, 2, true);
}

//@ {"replay":"model","name":"c01h_bt4_find_matches_lite","props":["C01","C15","C13"],"obligation":"C01-H","stubbing":true,"stubs":["Hash234 table accessors -> environment stub (harness/api_hash234.rs)"],"timeout":1800,"mem_gb":9,"feature_variants":["encoder,optimization"],"functions":["lz::bt4::BT4::find_matches","lz::bt4::BT4::move_pos","lz::bt4::BT4::new","lz::hash234::Hash234::calc_hashes","lz::lz_encoder::LZEncoderData::move_pos","lz::extend_match","lz::extend_match_safe"],"bounds":"dictionary 6 (cyclic_size 7), 20-byte window with arbitrary content, match_len_max 5, nice_len 5, depth limit 1; otherwise as c01h_bt4_find_matches_sound; unwind 12","assumes":["table invariant T1-T4 (harness/mf_hc4.rs header)","no position renormalisation in this step"]}
#[kani::proof]
#[kani::unwind(12)]
#[kani::stub(crate::lz::hash234::Hash234::get_hash2_pos, crate::lz::hash234::verif_h234::get2)]
#[kani::stub(crate::lz::hash234::Hash234::get_hash3_pos, crate::lz::hash234::verif_h234::get3)]
#[kani::stub(crate::lz::hash234::Hash234::get_hash4_pos, crate::lz::hash234::verif_h234::get4)]
#[kani::stub(crate::lz::hash234::Hash234::update_tables, crate::lz::hash234::verif_h234::update)]
fn c01h_bt4_find_matches_lite() {
    bt4_find_matches_step::<20>(6, 5, 5, 1, true);
}

//@ {"replay":"model","name":"c15e_bt4_find_matches_depth3_bounds","wip":true,"props":["C15","C01"],"obligation":"C15-E","stubbing":true,"stubs":["Hash234 table accessors -> environment stub (harness/api_hash234.rs)"],"tier":"thorough","timeout":3600,"mem_gb":9,"feature_variants":["encoder,optimization"],"functions":["lz::bt4::BT4::find_matches"],"bounds":"as c01h_bt4_find_matches_sound with depth limit 3, nice_len 4; only bounds / memory safety asserted (the tree ordering invariant is not assumed)","assumes":["table invariant T1, T2, T4","no renormalisation in this step"]}
#[kani::proof]
#[kani::unwind(12)]
#[kani::stub(crate::lz::hash234::Hash234::get_hash2_pos, crate::lz::hash234::verif_h234::get2)]
#[kani::stub(crate::lz::hash234::Hash234::get_hash3_pos, crate::lz::hash234::verif_h234::get3)]
#[kani::stub(crate::lz::hash234::Hash234::get_hash4_pos, crate::lz::hash234::verif_h234::get4)]
#[kani::stub(crate::lz::hash234::Hash234::update_tables, crate::lz::hash234::verif_h234::update)]
fn c15e_bt4_find_matches_depth3_bounds() {
    bt4_find_matches_step::<40>(12, 8, 4, 3, false);
}

//@ {"replay":"model","name":"c01h_bt4_skip","tier":"thorough","props":["C01","C15"],"obligation":"C01-H","stubbing":true,"stubs":["Hash234 table accessors -> environment stub (harness/api_hash234.rs)"],"timeout":5400,"mem_gb":18,"functions":["lz::bt4::BT4::skip","lz::bt4::BT4::move_pos"],"bounds":"skip length 0..=1 (symbolic), depth limit 2, nice_len 8, same state space as c01h_bt4_find_matches_sound; unwind 12","assumes":["table invariant T1, T2, T4","no renormalisation in these steps"]}
#[kani::proof]
#[kani::unwind(12)]
#[kani::stub(crate::lz::hash234::Hash234::get_hash2_pos, crate::lz::hash234::verif_h234::get2)]
#[kani::stub(crate::lz::hash234::Hash234::get_hash3_pos, crate::lz::hash234::verif_h234::get3)]
#[kani::stub(crate::lz::hash234::Hash234::get_hash4_pos, crate::lz::hash234::verif_h234::get4)]
#[kani::stub(crate::lz::hash234::Hash234::update_tables, crate::lz::hash234::verif_h234::update)]
fn c01h_bt4_skip() {
    let (mut d, content, mut mf) = any_bt4::<40>(12, 8, 8, 2);
    kani::assume(mf.lz_pos < 0x7FFF_FFF0);
    havoc_tables(&d, &content, &mut mf, 2);
    let n: usize = kani::any();
    kani::assume(n <= 1);
    let (rp0, lz0, pend0) = (d.read_pos, mf.lz_pos, d.pending_size);
    kani::assume(rp0 + (n as i32) <= d.write_pos);
    MatchFind::skip(&mut mf, &mut d, n);
    assert!(d.read_pos == rp0 + n as i32, "C01-H: skip(n) must advance the window by n bytes");
    let hashed = mf.lz_pos - lz0;
    assert!(hashed >= 0 && hashed as usize + (d.pending_size - pend0) as usize == n, "C01-H: every skipped byte is either hashed or pending");
    unsafe {
        use crate::lz::hash234::verif_h234 as st;
        assert!(st::UPD_CALLS as i32 == hashed, "C01-H: one table update per hashed position");
        if hashed > 0 {
            assert!(st::UPD_POS == mf.lz_pos, "C01-H: tables updated with a position other than the current one");
        }
    }
    let k: usize = kani::any();
    kani::assume(k < 40);
    assert!(d.buf[k] == content[k]);
    kani::cover!(n == 1 && hashed == 1, "one position hashed");
    kani::cover!(d.pending_size > pend0, "a skipped position became pending");
    core::mem::forget(d);
    core::mem::forget(mf);
}

// C01-H / C14: the renormalisation step of BT4::move_pos (see c01h_hc4_renormalise_step).
static mut NORM_CALLS: u32 = 0;
static mut NORM_OFFSET: i32 = 0;
static mut NORM_PTRS: [*const i32; 4] = [core::ptr::null(); 4];
static mut NORM_LENS: [usize; 4] = [0; 4];
fn verif_record_normalize(positions: &mut [i32], norm_offset: i32) {
    unsafe {
        if (NORM_CALLS as usize) < 4 {
            NORM_PTRS[NORM_CALLS as usize] = positions.as_ptr();
            NORM_LENS[NORM_CALLS as usize] = positions.len();
        }
        NORM_CALLS += 1;
        NORM_OFFSET = norm_offset;
    }
}

//@ {"replay":"model","name":"c01h_bt4_renormalise_step","props":["C01","C14"],"obligation":"C01-H","timeout":900,"mem_gb":9,"stubbing":true,"functions":["lz::bt4::BT4::move_pos","lz::hash234::Hash234::normalize"],"bounds":"lz_pos = 0x7FFFFFFE before the step; 40-byte window","assumes":["LZEncoder::normalize replaced by a recorder (its element formula is decided by c14c_normalize_*)"],"stubs":["LZEncoder::normalize -> recorder"]}
#[kani::proof]
#[kani::unwind(12)]
#[kani::stub(crate::lz::lz_encoder::LZEncoder::normalize, verif_record_normalize)]
fn c01h_bt4_renormalise_step() {
    let (mut d, content, mut mf) = any_bt4::<40>(12, 8, 8, 2);
    mf.lz_pos = 0x7FFF_FFFE;
    kani::assume(d.write_pos - (d.read_pos + 1) >= 8);
    let cs = mf.cyclic_size;
    let avail = mf.move_pos(&mut d);
    assert!(avail >= 8);
    unsafe {
        assert!(NORM_CALLS == 4, "C01-H: all four tables (hash2, hash3, hash4, tree) must be renormalised");
        assert!(NORM_OFFSET == 0x7FFF_FFFF - cs, "C01-H: renormalisation offset");
        let p = NORM_PTRS;
        assert!(p[0] != p[1] && p[0] != p[2] && p[0] != p[3] && p[1] != p[2] && p[1] != p[3] && p[2] != p[3],
            "C01-H: a table was renormalised twice (and another one not at all)");
        let l = NORM_LENS;
        assert!(l[0] + l[1] + l[2] + l[3] >= 1024 + 65536 + 65536 + 2 * cs as usize, "C01-H: a table was renormalised only in part");
        let e: i32 = kani::any();
        kani::assume(e >= 0 && e < 0x7FFF_FFFF);
        let e2 = if e > NORM_OFFSET { e - NORM_OFFSET } else { 0 };
        if e >= NORM_OFFSET {
            assert!(mf.lz_pos - e2 == 0x7FFF_FFFF - e, "C01-H: renormalisation changed a live distance");
        } else {
            assert!(mf.lz_pos - e2 >= cs, "C01-H: an entry clamped to 0 by renormalisation is still in reach");
        }
    }
    kani::cover!(true, "renormalised");
    core::mem::forget(d);
    core::mem::forget(mf);
}
