//@@ {"inject":"src/range_dec.rs","features":"encoder","needs":["gen_range_dec_models"]}

use super::verif_models::*;

const DB: usize = 8;

fn twin_state() -> (RangeDecoder<RangeDecoderBuffer>, [u8; DB], usize, u32, u32) {
    let bytes: [u8; DB] = kani::any();
    let pos: usize = kani::any();
    kani::assume(pos <= DB);
    let range: u32 = kani::any();
    let code: u32 = kani::any();
    // C01-A2: every decode_bit leaves range >= 2^16; decode_direct_bits is only entered after one
    kani::assume(range >= (1 << 16));
    // NOTE: no `code < range` assumption: hostile input can reach code == range (a direct bit with an odd range and
    // code == range - 1 yields it), so the twins are compared on every code value.
    (RangeDecoder { inner: RangeDecoderBuffer { buf: bytes.to_vec(), pos }, range, code }, bytes, pos, range, code)
}

// C14-B: the hand-written assembly (lowered model) and the portable loop compute the same result and leave the same
// decoder state, INCLUDING what `is_finished()` reports afterwards (it decides whether an LZMA2 chunk is accepted).
fn direct_bits_twin(kmax: u32, x86: bool) {
    let (mut d, bytes, pos, range, code) = twin_state();
    let count: u32 = kani::any();
    kani::assume(count >= 1 && count <= kmax);
    let r_portable = d.decode_direct_bits(count); // this build has no `optimization`: the portable loop
    // the optimization build only enters the asm when the dispatch condition (lowered from the source) holds;
    // otherwise both builds run the same portable loop and there is nothing to compare
    let uses_asm = if x86 { model_dispatch_x86_64(pos, DB, count) } else { model_dispatch_aarch64(pos, DB, count) };
    kani::cover!(!uses_asm, "state in which the optimization build falls back to the portable loop");
    kani::assume(uses_asm);
    let (mut mr, mut mc, mut mp, mut oob) = (range, code, pos, false);
    let r_model = if x86 {
        model_direct_bits_x86_64(&mut mr, &mut mc, &mut mp, &bytes, count, &mut oob)
    } else {
        model_direct_bits_aarch64(&mut mr, &mut mc, &mut mp, &bytes, count, &mut oob)
    };
    assert!(!oob, "C15-C: assembly byte load outside the buffer");
    assert!(r_portable == r_model, "C14-B: asm and portable decode_direct_bits return different values");
    assert!(d.range == mr && d.code == mc, "C14-B: asm and portable decode_direct_bits leave different range/code");
    let fin_portable = d.is_finished();
    let fin_model = mp == DB && mc == 0;
    assert!(fin_portable == fin_model, "C14-B: is_finished() differs between the asm and the portable path after an overrun");
    kani::cover!(d.inner.pos > pos && d.inner.pos <= DB, "normalisation inside the buffer");
    kani::cover!(r_portable != 0, "non-zero result");
}

//@ {"name":"c14b_direct_bits_twin_x86_k3","props":["C14","C15"],"obligation":"C14-B","timeout":1500,"mem_gb":9,"functions":["range_dec::RangeDecoder::decode_direct_bits (portable)","range_dec::RangeDecoder::decode_direct_bits_x86_64 (asm!, lowered by lower.py)","range_dec::RangeDecoder::is_finished"],"bounds":"8-byte chunk buffer with arbitrary content; pos 0..=8; range any value >= 2^16; code any u32; count 1..=3 (symbolic); unwind 18 (model: up to 5 basic blocks per bit)","assumes":["range >= 2^16 on entry (inductive: c01a2_rc_step_invariants); code unconstrained","the asm model is the lowering of the current source text, validated natively against the real asm on each run"]}
#[kani::proof]
#[kani::unwind(18)]
fn c14b_direct_bits_twin_x86_k3() { direct_bits_twin(3, true); }

//@ {"name":"c14b_direct_bits_twin_aarch64_k3","props":["C14"],"obligation":"C14-B","timeout":1500,"mem_gb":9,"functions":["range_dec::RangeDecoder::decode_direct_bits (portable)","range_dec::RangeDecoder::decode_direct_bits_aarch64 (asm!, lowered by lower.py)"],"bounds":"as the x86 twin; count 1..=3; unwind 18","assumes":["range >= 2^16 on entry; code unconstrained","aarch64 model cannot be validated against real aarch64 asm on this x86-64 host (same translator, validated on the x86 block)"]}
#[kani::proof]
#[kani::unwind(18)]
fn c14b_direct_bits_twin_aarch64_k3() { direct_bits_twin(3, false); }

//@ {"name":"c14b_direct_bits_twin_x86_k8","props":["C14"],"tier":"thorough","obligation":"C14-B","timeout":5400,"mem_gb":13,"functions":["range_dec::RangeDecoder::decode_direct_bits (portable)","range_dec::RangeDecoder::decode_direct_bits_x86_64 (asm!, lowered)"],"bounds":"count 1..=8; otherwise as k3; unwind 44","assumes":["range >= 2^16 on entry; code unconstrained"]}
#[kani::proof]
#[kani::unwind(44)]
fn c14b_direct_bits_twin_x86_k8() { direct_bits_twin(8, true); }

// C15-C: every byte load of the assembly stays inside the chunk buffer for EVERY state the callers can produce
// (pos <= len, len >= 1, count <= 32 - the loop bound is checked for count <= 6 here) and re-establishes pos <= len.
//@ {"name":"c15c_asm_loads_in_bounds","props":["C15"],"obligation":"C15-C","timeout":1500,"mem_gb":9,"functions":["range_dec::RangeDecoder::decode_direct_bits_x86_64 (asm!, lowered)","range_dec::RangeDecoder::decode_direct_bits_aarch64 (asm!, lowered)"],"bounds":"8-byte buffer, buffer length 1..=8 symbolic; pos 0..=len; range, code any u32 (no invariant assumed); count 1..=6; both architectures; unwind 34","assumes":["pos <= buf.len() on entry (prepare() sets it; the function re-establishes it: inductive)","the dispatch condition of decode_direct_bits (lowered from the source) holds"]}
#[kani::proof]
#[kani::unwind(34)]
fn c15c_asm_loads_in_bounds() {
    let bytes: [u8; DB] = kani::any();
    let len: usize = kani::any();
    kani::assume(len >= 1 && len <= DB);
    let pos: usize = kani::any();
    kani::assume(pos <= len);
    let (range, code): (u32, u32) = (kani::any(), kani::any());
    let count: u32 = kani::any();
    kani::assume(count >= 1 && count <= 6);
    let x86: bool = kani::any();
    // only states the dispatcher really hands to the assembly (its condition is lowered from the source too)
    kani::assume(if x86 { model_dispatch_x86_64(pos, len, count) } else { model_dispatch_aarch64(pos, len, count) });
    let (mut mr, mut mc, mut mp, mut oob) = (range, code, pos, false);
    if x86 {
        model_direct_bits_x86_64(&mut mr, &mut mc, &mut mp, &bytes[..len], count, &mut oob);
    } else {
        model_direct_bits_aarch64(&mut mr, &mut mc, &mut mp, &bytes[..len], count, &mut oob);
    }
    assert!(!oob, "C15-C: assembly byte load outside the buffer");
    assert!(mp <= len || mp >= pos, "position moved backwards");
    kani::cover!(mp == len && pos < len, "consumed the last byte of the buffer");
    kani::cover!(x86, "x86-64 model");
    kani::cover!(!x86, "aarch64 model");
}

// C06-D: the portable loop is total on every state (stream source that may be exhausted), count up to 32.
//@ {"name":"c06d_direct_bits_total","props":["C06","C05"],"obligation":"C06-D","timeout":1500,"mem_gb":9,"functions":["range_dec::RangeDecoder::decode_direct_bits (portable, stream source)","range_dec::RangeReader::read_u8"],"bounds":"range any value >= 2^16, code any u32; count 0..=8; source of 0..=4 arbitrary bytes; unwind 24","assumes":["range >= 2^16 (inductive decoder invariant)"]}
#[kani::proof]
#[kani::unwind(24)]
fn c06d_direct_bits_total() {
    let (range, code): (u32, u32) = (kani::any(), kani::any());
    // range >= 2^16 is the decoder's inductive invariant (c01a2_rc_step_invariants); with range == 0 the portable
    // loop would never terminate (0 << 8 == 0), a state no decode_bit can produce
    kani::assume(range >= (1 << 16));
    let count: u32 = kani::any();
    kani::assume(count <= 8);
    let mut d = RangeDecoder { inner: Src::<4>::any(), range, code };
    let p0 = d.inner.pos;
    let r = d.decode_direct_bits(count);
    assert!(d.inner.pos >= p0 && d.inner.pos <= d.inner.len);
    assert!(count == 32 || (r as u32) < (1u32 << count));
    kani::cover!(d.inner.eof_hits > 0, "source exhausted during direct bits");
}
