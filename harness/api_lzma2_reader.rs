//@@ {"inject":"src/lzma2_reader.rs","mod":"verif_api_lzma2_reader","raw":true,"always":true}
#[cfg(kani)]
#[allow(dead_code)]
pub(crate) fn verif_need_dict_reset<R>(r: &LZMA2Reader<R>) -> bool {
    r.need_dict_reset
}
