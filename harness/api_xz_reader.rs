//@@ {"inject":"src/xz/reader.rs","mod":"verif_xz_reader_api","raw":true,"features":"encoder,xz"}
// Thin pub(crate) wrappers around the XZ reader's private parsers so that writer-side harnesses (src/xz/writer.rs)
// can feed them the bytes the real writer produced.  cfg(kani) only.
#[cfg(kani)]
#[allow(dead_code)]
pub(crate) mod verif_xz_reader_api {
    use super::*;

    pub(crate) fn parse_stream_header<R: Read>(r: &mut R) -> Result<u8> {
        StreamHeader::parse(r).map(|h| h.check_type as u8)
    }

    #[allow(clippy::type_complexity)]
    pub(crate) fn parse_block_header<R: Read>(r: &mut R) -> Result<Option<([Option<FilterType>; 4], [u32; 4], Option<u64>, Option<u64>)>> {
        BlockHeader::parse(r).map(|o| o.map(|h| (h.filters, h.properties, h.compressed_size, h.uncompressed_size)))
    }

    /// (number_of_records, first record, second record) -- fixed arity keeps Vec handling out of the harness
    pub(crate) fn parse_index<R: Read>(r: &mut R) -> Result<(u64, usize, (u64, u64), (u64, u64))> {
        let ix = Index::parse(r)?;
        let n = ix.records.len();
        let a = if n > 0 { (ix.records[0].unpadded_size, ix.records[0].uncompressed_size) } else { (0, 0) };
        let b = if n > 1 { (ix.records[1].unpadded_size, ix.records[1].uncompressed_size) } else { (0, 0) };
        let out = (ix.number_of_records, n, a, b);
        core::mem::forget(ix);
        Ok(out)
    }

    pub(crate) fn parse_footer<R: Read>(r: &mut R) -> Result<(u32, [u8; 2])> {
        StreamFooter::parse(r).map(|f| (f.backward_size, f.stream_flags))
    }
}
