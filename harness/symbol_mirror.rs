//@@ {"wip":true,"inject":"src/enc/encoder.rs","features":"encoder","needs":["stubs_enc","stubs_enc_normal","stubs_dec","api_decoder","api_lz_mod"]}

// C01-D symbol mirror: ONE whole LZMA symbol goes through the REAL `LZMAEncoder::encode_symbol` (is_match / is_rep bits,
// `encode_match` / `encode_rep_match` / literal coder, length coder, distance-slot / reverse-tree / direct-bit / align coding,
// state and rep updates) into the real range encoder, and back through the REAL `LZMADecoder::decode` (`decode_match`,
// `decode_rep_match`, literal decoder, `LengthCoder::decode`, `LZDecoder::repeat` / `put_byte`) - from an ARBITRARY coder
// pre-state (state 0..11, reps) with fresh probabilities.  Decided: the decoder reconstructs the same (kind, distance,
// length / byte), ends in the same state / reps, has adapted exactly the same probability cells in the same way, and has
// consumed exactly the encoder's bytes.
//
// Environment: the parse decision (which symbol to code) is the encoder mode's job; it is replaced by `StubMode`, which
// hands `encode_symbol` a symbolic (back, len) the way the real modes do (`data.back`, advanced `read_pos` / `read_ahead`,
// optional extra look-ahead).  The match finder is not consulted (HC4/BT4 steps: harness/mf_*.rs).

use crate::decoder::verif_stubs_dec::{fresh_coder, fresh_len_coder, verif_fresh_decoder, verif_set_state};
use crate::lz::{LZDecoder, LZEncoderData};
use crate::range_dec::RangeDecoder;

const W: usize = 24;
const LC: u32 = 1;
const LP: u32 = 1;
const PB: u32 = 2;

struct StubMode {
    back: i32,
    len: u32,
    extra: i32,
}

impl LZMAEncoderTrait for StubMode {
    fn get_next_symbol(&mut self, e: &mut LZMAEncoder) -> u32 {
        e.data.back = self.back;
        let adv = self.len as i32 + self.extra;
        e.lz.data.read_pos += adv;
        e.data.read_ahead += adv;
        self.len
    }
}

fn small_encoder(content: &[u8; W], start: usize) -> LZMAEncoder {
    // real constructor (hash tables + chain), then the 256 KiB window is swapped for a W-byte one with the same field meaning
    let mut lz = LZEncoder::new_hc4(12, 0, 0, 8, 8, 2);
    lz.data = LZEncoderData {
        keep_size_before: 12,
        keep_size_after: 8,
        match_len_max: 8,
        nice_len: 8,
        buf: content.to_vec(),
        buf_size: W,
        buf_limit_u16: W - 2,
        read_pos: start as i32 - 1,
        read_limit: i32::MAX - 1024,
        finishing: false,
        write_pos: W as i32,
        pending_size: 0,
    };
    let mut match_len_encoder = LengthEncoder::new(PB, 8);
    match_len_encoder.coder = fresh_len_coder();
    let mut rep_len_encoder = LengthEncoder::new(PB, 8);
    rep_len_encoder.coder = fresh_len_coder();
    LZMAEncoder {
        coder: fresh_coder(PB as usize),
        lz,
        literal_encoder: LiteralEncoder::new(LC, LP),
        match_len_encoder,
        rep_len_encoder,
        data: LZMAEncData {
            nice_len: 8,
            dist_price_count: 0,
            align_price_count: 0,
            dist_slot_prices_size: 0,
            dist_slot_prices: Vec::new(),
            full_dist_prices: [[0; FULL_DISTANCES]; DIST_STATES],
            align_prices: [0; ALIGN_SIZE],
            back: 0,
            read_ahead: -1,
            uncompressed_size: 0,
        },
    }
}

fn len_coders_equal_at(a: &LengthCoder, b: &LengthCoder) -> bool {
    let i: usize = kani::any();
    let j: usize = kani::any();
    let k: usize = kani::any();
    kani::assume(i < 16 && j < 8 && k < 256);
    a.choice[0] == b.choice[0] && a.choice[1] == b.choice[1] && a.low[i][j] == b.low[i][j] && a.mid[i][j] == b.mid[i][j] && a.high[k] == b.high[k]
}

fn coders_equal_at(a: &LZMACoder, b: &LZMACoder) -> bool {
    let s: usize = kani::any();
    let p: usize = kani::any();
    let d: usize = kani::any();
    let q: usize = kani::any();
    let sp: usize = kani::any();
    kani::assume(s < 12 && p < 16 && d < 4 && q < 64 && sp < 124);
    a.is_match[s][p] == b.is_match[s][p] && a.is_rep[s] == b.is_rep[s] && a.is_rep0[s] == b.is_rep0[s] && a.is_rep1[s] == b.is_rep1[s]
        && a.is_rep2[s] == b.is_rep2[s] && a.is_rep0_long[s][p] == b.is_rep0_long[s][p] && a.dist_slots[d][q] == b.dist_slots[d][q]
        && a.dist_special[sp] == b.dist_special[sp] && a.dist_align[p] == b.dist_align[p]
}

/// kind 0 = literal, 1 = normal match, 2 = rep match (incl. short rep)
fn symbol_mirror<const CAP: usize>(kind: u8, len_lo: u32, len_hi: u32, dist_lo: u32, dist_hi: u32) {
    let content: [u8; W] = kani::any();
    let start: usize = kani::any();
    kani::assume(start >= 1 && start < W);
    let st: u8 = kani::any();
    kani::assume(st < 12);
    let reps: [i32; 4] = kani::any();
    kani::assume(reps[0] >= 0 && reps[1] >= 0 && reps[2] >= 0 && reps[3] >= 0);
    let mut enc = small_encoder(&content, start);
    enc.coder.state = State::from(st);
    enc.coder.reps = reps;
    let mut dec = verif_fresh_decoder(LC, LP, PB);
    verif_set_state(&mut dec, st, reps);

    let len: u32 = kani::any();
    let extra: i32 = kani::any();
    kani::assume(extra >= 0 && extra <= 2);
    let mut expect_dist: i32 = 0;
    let back: i32;
    if kind == 0 {
        kani::assume(len == 1);
        back = -1;
        if st >= 7 {
            // matched-literal mode reads the byte at reps[0]: it lies inside the dictionary in every real history
            kani::assume((reps[0] as usize) < start);
        }
    } else if kind == 1 {
        let dist: u32 = kani::any();
        kani::assume(len >= len_lo && len <= len_hi && dist >= dist_lo && dist <= dist_hi);
        kani::assume((dist as usize) < start); // a match the decoder can resolve (dist >= full is its error path: c01g)
        back = dist as i32 + 4;
        expect_dist = dist as i32;
    } else {
        let rep: u32 = kani::any();
        kani::assume(rep < 4);
        kani::assume((len >= len_lo && len <= len_hi) || (len == 1 && rep == 0));
        kani::assume((reps[rep as usize] as usize) < start);
        back = rep as i32;
        expect_dist = reps[rep as usize];
    }
    let mut mode = StubMode { back, len, extra };
    // the sink is passed by value: `impl Write for &mut W` does not forward write_all, and the default retry loop nested
    // into shift_low's loop multiplies the unwinding
    let mut rc = RangeEncoder::new(Sink::<CAP>::new());
    let r = enc.encode_symbol(&mut rc, &mut mode);
    assert!(matches!(r, Ok(true)), "C01-D: encode_symbol refused a symbol although look-ahead is available");
    assert!(enc.data.read_ahead == extra - 1 && enc.data.uncompressed_size == len, "C01-D: encoder look-ahead / size accounting");
    assert!(rc.finish().is_ok());
    let sink = rc.into_inner();
    let produced = sink.len;

    let mut lzd = LZDecoder::verif_from_parts(content.to_vec(), start, start, start, start + 1, 0, 0);
    let rd = RangeDecoder::new_stream(Src::<CAP>::new(sink.buf, produced));
    assert!(rd.is_ok());
    let mut rd = rd.unwrap();
    let r = dec.decode(&mut lzd, &mut rd);
    assert!(r.is_ok(), "C01-D: decoder rejected a symbol the encoder produced");
    // same symbol
    assert!(lzd.verif_pos() == start + 1);
    let (plen, pdist) = lzd.verif_pending();
    if kind == 0 {
        assert!(plen == 0 && lzd.verif_buf()[start] == content[start], "C01-D: decoded literal differs from the encoded byte");
    } else {
        assert!(1 + plen == len as usize, "C01-D: decoded match length differs from the encoded one");
        assert!(dec.verif_coder().reps[0] == expect_dist, "C01-D: decoded distance differs from the encoded one");
        assert!(plen == 0 || pdist == expect_dist as usize);
        assert!(lzd.verif_buf()[start] == content[start - 1 - expect_dist as usize], "C01-D: match copied from the wrong place");
    }
    // same model state afterwards
    assert!(dec.verif_coder().state.get() == enc.coder.state.get(), "C01-D: encoder and decoder state machines diverged");
    assert!(dec.verif_coder().reps == enc.coder.reps, "C01-D: encoder and decoder rep distances diverged");
    assert!(coders_equal_at(dec.verif_coder(), &enc.coder), "C01-D: a probability cell of the LZMA coder differs between encoder and decoder");
    assert!(len_coders_equal_at(dec.verif_match_len(), &enc.match_len_encoder.coder), "C01-D: match length coder probabilities diverged");
    assert!(len_coders_equal_at(dec.verif_rep_len(), &enc.rep_len_encoder.coder), "C01-D: rep length coder probabilities diverged");
    let li: usize = kani::any();
    let lj: usize = kani::any();
    kani::assume(li < 4 && lj < 0x300);
    assert!(dec.verif_lit_sub(li).probs[lj] == enc.literal_encoder.sub_encoders[li].coder.probs[lj], "C01-D: literal coder probabilities diverged");
    // C16: the decoder consumed exactly what the encoder produced
    assert!(rd.is_stream_finished(), "C16: range decoder not finished after the encoder's flush");
    assert!(rd.verif_inner().pos == produced, "C16: decoder consumed a different number of bytes than the encoder produced");
    kani::cover!(st >= 7, "non-literal pre-state");
    kani::cover!(st < 7, "literal pre-state");
    kani::cover!(extra > 0, "encoder had read ahead further than the symbol");
    kani::cover!(kind != 2 || len == 1, "short rep");
    kani::cover!(kind != 2 || (back == 3 && len > 1), "long rep3");
    kani::cover!(kind != 1 || plen > 0, "match longer than the output limit (pending)");
    core::mem::forget(enc);
    core::mem::forget(dec);
    core::mem::forget(lzd);
}

//@ {"name":"c01d_symbol_mirror_literal","props":["C01","C16","C03"],"obligation":"C01-D","timeout":2400,"mem_gb":9,"functions":["enc::encoder::LZMAEncoder::encode_symbol","enc::encoder::LiteralEncoder::encode","enc::encoder::LiteralSubEncoder::encode","decoder::LZMADecoder::decode","decoder::LiteralDecoder::decode","decoder::LiteralSubDecoder::decode","lz::lz_decoder::LZDecoder::put_byte","state::State::update_literal","enc::range_enc::RangeEncoder::encode_bit","range_dec::RangeDecoder::decode_bit"],"bounds":"one literal (9 coded bits), normal and matched-literal mode; 24-byte window/dictionary with arbitrary content, symbol start 1..=23, any state 0..=11, any reps >= 0 (reps[0] inside the dictionary for matched mode), lc=1 lp=1 pb=2, fresh probabilities; unwind 20","assumes":["fresh (reset) probability tables","parse decision supplied by StubMode","LZMADecoder / coder tables built by the natively validated constructor stubs"],"stubs":["StubMode (parse decision)","constructor stubs fresh_coder / verif_fresh_decoder"]}
#[kani::proof]
#[kani::unwind(20)]
fn c01d_symbol_mirror_literal() {
    symbol_mirror::<16>(0, 1, 1, 0, 0);
}

//@ {"name":"c01d_symbol_mirror_match_near","props":["C01","C16","C03"],"obligation":"C01-D","timeout":3000,"mem_gb":9,"functions":["enc::encoder::LZMAEncoder::encode_symbol","enc::encoder::LZMAEncoder::encode_match","enc::encoder::LengthEncoder::encode","enc::encoder::LZMAEncoder::get_dist_slot","decoder::LZMADecoder::decode","decoder::LZMADecoder::decode_match","decoder::LengthCoder::decode","lz::lz_decoder::LZDecoder::repeat","state::State::update_match"],"bounds":"one normal match, length 2..=17 (low and mid length trees), distance 0..=22 (slots 0..=8: direct slot and reverse-tree footers); otherwise as c01d_symbol_mirror_literal; unwind 20","assumes":["fresh probability tables","parse decision supplied by StubMode","distance inside the decoder dictionary"],"stubs":["StubMode (parse decision)","constructor stubs"]}
#[kani::proof]
#[kani::unwind(20)]
fn c01d_symbol_mirror_match_near() {
    symbol_mirror::<16>(1, 2, 17, 0, 22);
}

//@ {"name":"c01d_symbol_mirror_rep","props":["C01","C16","C03"],"obligation":"C01-D","timeout":3000,"mem_gb":9,"functions":["enc::encoder::LZMAEncoder::encode_symbol","enc::encoder::LZMAEncoder::encode_rep_match","decoder::LZMADecoder::decode_rep_match","state::State::update_long_rep","state::State::update_short_rep"],"bounds":"one rep match: rep index 0..=3, length 2..=17 or the short rep (rep0, length 1); otherwise as c01d_symbol_mirror_literal; unwind 20","assumes":["fresh probability tables","parse decision supplied by StubMode","the chosen rep distance lies inside the decoder dictionary"],"stubs":["StubMode (parse decision)","constructor stubs"]}
#[kani::proof]
#[kani::unwind(20)]
fn c01d_symbol_mirror_rep() {
    symbol_mirror::<16>(2, 2, 17, 0, 0);
}

//@ {"name":"c01d_symbol_mirror_match_long_len","props":["C01","C16"],"obligation":"C01-D","tier":"thorough","timeout":5400,"mem_gb":18,"functions":["enc::encoder::LengthEncoder::encode","decoder::LengthCoder::decode"],"bounds":"one normal match, length 18..=273 (high length tree, 8 bits), distance 0..=3; unwind 20","assumes":["fresh probability tables","parse decision supplied by StubMode"],"stubs":["StubMode (parse decision)","constructor stubs"]}
#[kani::proof]
#[kani::unwind(20)]
fn c01d_symbol_mirror_match_long_len() {
    symbol_mirror::<16>(1, 18, 273, 0, 3);
}

// C01-D (far distances): `encode_match` <-> `decode_match` for distances whose footer uses direct bits + the align tree.  Driven
// below `encode_symbol` / `decode` because a dictionary large enough for such a distance cannot be given to CBMC; the two
// prefix bits (is_match, is_rep) and the dictionary copy are covered by c01d_symbol_mirror_match_near.
fn dist_mirror<const CAP: usize>(dist_lo: u32, dist_hi: u32) {
    let content = [0u8; W];
    let st: u8 = kani::any();
    kani::assume(st < 12);
    let reps: [i32; 4] = kani::any();
    let mut enc = small_encoder(&content, 1);
    enc.coder.state = State::from(st);
    enc.coder.reps = reps;
    let mut dec = verif_fresh_decoder(LC, LP, PB);
    verif_set_state(&mut dec, st, reps);
    let dist: u32 = kani::any();
    let len: u32 = kani::any();
    let pos_state: u32 = kani::any();
    kani::assume(dist >= dist_lo && dist <= dist_hi && len >= 2 && len <= 7 && pos_state <= 3);
    let mut rc = RangeEncoder::new(Sink::<CAP>::new());
    assert!(enc.encode_match(dist, len, pos_state, &mut rc).is_ok());
    assert!(rc.finish().is_ok());
    let sink = rc.into_inner();
    let produced = sink.len;
    let rd = RangeDecoder::new_stream(Src::<CAP>::new(sink.buf, produced));
    assert!(rd.is_ok());
    let mut rd = rd.unwrap();
    let dlen = dec.verif_decode_match(pos_state, &mut rd);
    rd.normalize();
    assert!(dlen == len, "C01-D: decoded match length differs from the encoded one");
    assert!(dec.verif_coder().reps[0] == dist as i32, "C01-D: decoded distance differs from the encoded one");
    assert!(dec.verif_coder().reps[1] == reps[0] && dec.verif_coder().reps[2] == reps[1] && dec.verif_coder().reps[3] == reps[2], "C01-D: rep history not shifted");
    assert!(dec.verif_coder().reps == enc.coder.reps && dec.verif_coder().state.get() == enc.coder.state.get());
    assert!(coders_equal_at(dec.verif_coder(), &enc.coder), "C01-D: a probability cell of the LZMA coder differs between encoder and decoder");
    assert!(len_coders_equal_at(dec.verif_match_len(), &enc.match_len_encoder.coder), "C01-D: match length coder probabilities diverged");
    assert!(rd.is_stream_finished(), "C16: range decoder not finished after the encoder's flush");
    assert!(rd.verif_inner().pos == produced, "C16: decoder consumed a different number of bytes than the encoder produced");
    kani::cover!(dist == dist_hi, "largest distance of the class");
    kani::cover!(st >= 7, "non-literal pre-state");
    core::mem::forget(enc);
    core::mem::forget(dec);
}

//@ {"name":"c01d_dist_mirror_mid","props":["C01","C16","C03"],"obligation":"C01-D","timeout":3000,"mem_gb":9,"functions":["enc::encoder::LZMAEncoder::encode_match","enc::encoder::LZMAEncoder::get_dist_slot","enc::range_enc::RangeEncoder::encode_direct_bits","enc::range_enc::RangeEncoder::encode_reverse_bit_tree","decoder::LZMADecoder::decode_match","range_dec::RangeDecoder::decode_direct_bits","range_dec::RangeDecoder::decode_reverse_bit_tree"],"bounds":"distance 23..=4095 (reverse-tree slots 9..=13 and direct-bit slots 14..=23: 2..=7 direct bits + 4 align bits), length 2..=7 (all four distance states), any state / reps, pos_state 0..=3; unwind 20","assumes":["fresh probability tables"],"stubs":["constructor stubs"]}
#[kani::proof]
#[kani::unwind(20)]
fn c01d_dist_mirror_mid() {
    dist_mirror::<16>(23, 4095);
}

//@ {"name":"c01d_dist_mirror_far","props":["C01","C16","C03"],"obligation":"C01-D","tier":"thorough","timeout":7200,"mem_gb":22,"functions":["enc::encoder::LZMAEncoder::encode_match","decoder::LZMADecoder::decode_match","range_dec::RangeDecoder::decode_direct_bits"],"bounds":"distance 4096..=0xFFFFFFFF (direct-bit slots 24..=63, up to 26 direct bits + 4 align bits; includes the end-marker distance), length 2..=7; unwind 30","assumes":["fresh probability tables"],"stubs":["constructor stubs"]}
#[kani::proof]
#[kani::unwind(30)]
fn c01d_dist_mirror_far() {
    dist_mirror::<24>(4096, u32::MAX);
}

// ------------------------------------------------------------------------------------------------------------------
// C01-I parser soundness (Fast mode): the REAL `FastEncoderMode::get_next_symbol` on an arbitrary window, arbitrary reps and
// ARBITRARY match-finder answers that satisfy the match finder's contract (every reported pair is a true, maximal match:
// decided for HC4/BT4 by c01h_*).  The match finder is an environment stub: `LZEncoder::find_matches` advances the window
// by one byte and returns the harness-chosen answer for that position, `LZEncoder::skip` advances the window.
// Decided: whatever the parser decides to code - literal, rep match or normal match - describes the bytes that are really
// at the symbol's position (so the decoder, which copies from its dictionary, reproduces them), the length never exceeds
// the available data, and the window / look-ahead accounting stays consistent.
const PW: usize = 12;
static mut MF_CALLS: usize = 0;
static mut MF_BASE: usize = 0;
static mut MF_COUNT: [u32; 2] = [0; 2];
static mut MF_LEN: [[u32; 3]; 2] = [[0; 3]; 2];
static mut MF_DIST: [[i32; 3]; 2] = [[0; 3]; 2];

fn stub_find_matches(lz: &mut LZEncoder) {
    unsafe {
        lz.data.read_pos += 1;
        let k = MF_BASE + MF_CALLS;
        MF_CALLS += 1;
        assert!(k < 2, "verif: parser asked the match finder more often than the harness provides answers for");
        lz.matches.count = MF_COUNT[k];
        let mut i = 0;
        while i < 3 {
            lz.matches.len[i] = MF_LEN[k][i];
            lz.matches.dist[i] = MF_DIST[k][i];
            i += 1;
        }
    }
}

fn stub_skip(lz: &mut LZEncoder, len: usize) {
    lz.data.read_pos += len as i32;
}

/// Chooses an arbitrary contract-conforming answer of the match finder for window position `rp`.
fn any_mf_answer(k: usize, buf: &[u8], rp: i32, write_pos: i32) {
    let count: u32 = kani::any();
    kani::assume(count <= 2);
    let limit = (write_pos - rp).min(273);
    let mut prev = 1u32;
    let mut i = 0;
    while i < 3 {
        let len: u32 = kani::any();
        let dist: i32 = kani::any();
        if (i as u32) < count {
            kani::assume(dist >= 0 && dist < rp && dist < 4096);
            kani::assume(len > prev && len as i32 <= limit);
            // true and maximal: the real extend_match (decided against its spec by c14a_extend_match_spec) is the oracle
            kani::assume(crate::lz::verif_extend_match(buf, rp, 0, dist + 1, limit) == len as i32);
            prev = len;
        }
        unsafe {
            MF_LEN[k][i] = len;
            MF_DIST[k][i] = dist;
        }
        i += 1;
    }
    unsafe { MF_COUNT[k] = count; }
}

fn fast_parser_sound(fresh: bool) {
    let content: [u8; PW] = kani::any();
    let start: usize = kani::any();
    kani::assume(start >= 1 && start + 4 <= PW - 1);
    let mut enc = small_encoder(&[0u8; W], 1);
    enc.lz.data.buf = content.to_vec();
    enc.lz.data.buf_size = PW;
    enc.lz.data.buf_limit_u16 = PW - 2;
    enc.lz.data.write_pos = PW as i32;
    enc.data.nice_len = 5; // small enough for the "nice length reached" early exits to be reachable in a 12-byte window
    enc.lz.data.match_len_max = 273; // as in the real encoder (MATCH_LEN_MAX); verify_matches() uses it as the length limit
    let reps: [i32; 4] = kani::any();
    kani::assume(reps[0] >= 0 && reps[1] >= 0 && reps[2] >= 0 && reps[3] >= 0);
    kani::assume((reps[0] as usize) < start && (reps[1] as usize) < start && (reps[2] as usize) < start && (reps[3] as usize) < start);
    enc.coder.reps = reps;
    let s = start as i32;
    any_mf_answer(0, &content, s, PW as i32);
    any_mf_answer(1, &content, s + 1, PW as i32);
    unsafe {
        MF_CALLS = 0;
        if fresh {
            // the previous symbol consumed all look-ahead: the parser asks the match finder for this position itself
            MF_BASE = 0;
            enc.lz.data.read_pos = s - 1;
            enc.data.read_ahead = -1;
        } else {
            // the previous call already looked at this position (it returned a literal after its look-ahead)
            MF_BASE = 1;
            enc.lz.data.read_pos = s;
            enc.data.read_ahead = 0;
            enc.lz.matches.count = MF_COUNT[0];
            let mut i = 0;
            while i < 3 {
                enc.lz.matches.len[i] = MF_LEN[0][i];
                enc.lz.matches.dist[i] = MF_DIST[0][i];
                i += 1;
            }
        }
    }
    let mut mode = FastEncoderMode::default();
    let len = mode.get_next_symbol(&mut enc) as i32;
    let back = enc.data.back;
    // accounting: the symbol still starts at `start`, and everything up to read_pos has been handed to the match finder
    assert!(enc.lz.data.read_pos - enc.data.read_ahead == s, "C01-I: symbol start moved (read_pos / read_ahead accounting)");
    assert!(enc.data.read_ahead >= len - 1, "C01-I: parser returned a length it has not advanced the window over");
    assert!(len >= 1 && s + len <= PW as i32, "C01-I: symbol longer than the available data");
    assert!(back >= -1);
    if back == -1 {
        assert!(len == 1, "C01-I: literal with a length other than 1");
    } else {
        let dist = if back < 4 { reps[back as usize] } else { back - 4 };
        assert!(len >= 2 || (back == 0 && len == 1), "C01-I: match shorter than 2 (only the short rep may have length 1)");
        assert!(dist >= 0 && dist < s, "C15: chosen distance reaches before the window");
        let j: i32 = kani::any();
        kani::assume(j >= 0 && j < len);
        assert!(content[(s + j) as usize] == content[(s + j - dist - 1) as usize],
            "C01-I: parser chose a (distance, length) whose bytes do not match: the decoder would reproduce other data");
    }
    kani::cover!(back == -1 && unsafe { MF_CALLS } == 2 - unsafe { MF_BASE }, "literal chosen after look-ahead");
    kani::cover!(back >= 0 && back < 4 && len >= 2, "rep match chosen");
    kani::cover!(back >= 4, "normal match chosen");
    kani::cover!(back >= 4 && len >= 5, "nice-length match");
    core::mem::forget(enc);
}

//@ {"name":"c01i_fast_parser_sound_fresh","props":["C01","C15","C13"],"obligation":"C01-I","stubbing":true,"timeout":3000,"mem_gb":13,"functions":["enc::encoder_fast::FastEncoderMode::get_next_symbol","enc::encoder::LZMAEncoder::find_matches","enc::encoder::LZMAEncoder::skip","lz::lz_encoder::LZEncoderData::get_match_len","lz::lz_encoder::LZEncoderData::verify_matches","lz::extend_match"],"bounds":"12-byte window with arbitrary content, symbol start 1..=7 (at least 4 bytes of look-ahead), nice_len 5, any reps inside the window, up to 2 arbitrary contract-conforming matches per match-finder call (2 calls); entry without look-ahead left over (the parser calls the match finder itself); unwind 14","assumes":["match finder contract (true, maximal, strictly increasing matches inside the window: c01h_*)","rep distances inside the window"],"stubs":["LZEncoder::find_matches / LZEncoder::skip -> environment stubs"]}
#[kani::proof]
#[kani::unwind(14)]
#[kani::stub(crate::lz::lz_encoder::LZEncoder::find_matches, stub_find_matches)]
#[kani::stub(crate::lz::lz_encoder::LZEncoder::skip, stub_skip)]
fn c01i_fast_parser_sound_fresh() {
    fast_parser_sound(true);
}

//@ {"name":"c01i_fast_parser_sound_lookahead","props":["C01","C15","C13"],"obligation":"C01-I","stubbing":true,"timeout":3000,"mem_gb":13,"functions":["enc::encoder_fast::FastEncoderMode::get_next_symbol"],"bounds":"as c01i_fast_parser_sound_fresh, entered with the matches of the current position left by the previous call's look-ahead (read_ahead = 0)","assumes":["match finder contract (c01h_*)","rep distances inside the window"],"stubs":["LZEncoder::find_matches / LZEncoder::skip -> environment stubs"]}
#[kani::proof]
#[kani::unwind(14)]
#[kani::stub(crate::lz::lz_encoder::LZEncoder::find_matches, stub_find_matches)]
#[kani::stub(crate::lz::lz_encoder::LZEncoder::skip, stub_skip)]
fn c01i_fast_parser_sound_lookahead() {
    fast_parser_sound(false);
}
