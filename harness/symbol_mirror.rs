//@@ {"inject":"src/enc/encoder.rs","features":"encoder","needs":["stubs_enc","stubs_enc_normal","stubs_dec","api_decoder","api_lz_mod"]}

// Fast-mode parser (C01-I).  Shared scaffolding: a small real LZMAEncoder (`small_encoder`), the parse
// decision as environment (`StubMode` implements LZMAEncoderTrait the way the real modes do: `data.back`, advanced `read_pos` /
// `read_ahead`, optional extra look-ahead), cell-by-cell comparison of encoder and decoder probability tables.

use crate::decoder::verif_stubs_dec::{fresh_coder, fresh_len_coder, verif_fresh_decoder, verif_set_state};
use crate::lz::{LZDecoder, LZEncoderData};
use crate::range_dec::RangeDecoder;

const W: usize = 24;
const LC: u32 = 1;
const LP: u32 = 1;
const PB: u32 = 2;

struct StubMode {
    back: i32,
    len: u32,
    extra: i32,
}

impl LZMAEncoderTrait for StubMode {
    fn get_next_symbol(&mut self, e: &mut LZMAEncoder) -> u32 {
        e.data.back = self.back;
        let adv = self.len as i32 + self.extra;
        e.lz.data.read_pos += adv;
        e.data.read_ahead += adv;
        self.len
    }
}

fn small_encoder(content: &[u8; W], start: usize) -> LZMAEncoder {
    // real constructor (hash tables + chain), then the 256 KiB window is swapped for a W-byte one with the same field meaning
    let mut lz = LZEncoder::new_hc4(12, 0, 0, 8, 8, 2);
    lz.data = LZEncoderData {
        keep_size_before: 12,
        keep_size_after: 8,
        match_len_max: 8,
        nice_len: 8,
        buf: content.to_vec(),
        buf_size: W,
        buf_limit_u16: W - 2,
        read_pos: start as i32 - 1,
        read_limit: i32::MAX - 1024,
        finishing: false,
        write_pos: W as i32,
        pending_size: 0,
    };
    let mut match_len_encoder = LengthEncoder::new(PB, 8);
    match_len_encoder.coder = fresh_len_coder();
    let mut rep_len_encoder = LengthEncoder::new(PB, 8);
    rep_len_encoder.coder = fresh_len_coder();
    LZMAEncoder {
        coder: fresh_coder(PB as usize),
        lz,
        literal_encoder: LiteralEncoder::new(LC, LP),
        match_len_encoder,
        rep_len_encoder,
        data: LZMAEncData {
            nice_len: 8,
            dist_price_count: 0,
            align_price_count: 0,
            dist_slot_prices_size: 0,
            dist_slot_prices: Vec::new(),
            full_dist_prices: [[0; FULL_DISTANCES]; DIST_STATES],
            align_prices: [0; ALIGN_SIZE],
            back: 0,
            read_ahead: -1,
            uncompressed_size: 0,
        },
    }
}

fn len_coders_equal_at(a: &LengthCoder, b: &LengthCoder) -> bool {
    let i: usize = kani::any();
    let j: usize = kani::any();
    let k: usize = kani::any();
    kani::assume(i < 16 && j < 8 && k < 256);
    a.choice[0] == b.choice[0] && a.choice[1] == b.choice[1] && a.low[i][j] == b.low[i][j] && a.mid[i][j] == b.mid[i][j] && a.high[k] == b.high[k]
}

fn coders_equal_at(a: &LZMACoder, b: &LZMACoder) -> bool {
    let s: usize = kani::any();
    let p: usize = kani::any();
    let d: usize = kani::any();
    let q: usize = kani::any();
    let sp: usize = kani::any();
    kani::assume(s < 12 && p < 16 && d < 4 && q < 64 && sp < 124);
    a.is_match[s][p] == b.is_match[s][p] && a.is_rep[s] == b.is_rep[s] && a.is_rep0[s] == b.is_rep0[s] && a.is_rep1[s] == b.is_rep1[s]
        && a.is_rep2[s] == b.is_rep2[s] && a.is_rep0_long[s][p] == b.is_rep0_long[s][p] && a.dist_slots[d][q] == b.dist_slots[d][q]
        && a.dist_special[sp] == b.dist_special[sp] && a.dist_align[p] == b.dist_align[p]
}

// (An earlier version of this file mirrored one symbol through the REAL range coder on both sides.  It did not finish: the decoder
// side decodes symbolic bytes, so CBMC explores every symbol kind and the direct-bit loop to the unwinding bound - literal
// 2400 s timeout, rep / near match out of memory at 9 GB, distance mirror 3000 s timeout.  The recorder / replayer harness at the
// end of this file (C01-D2) replaces it.)

// ------------------------------------------------------------------------------------------------------------------
// C01-I parser soundness (Fast mode): the REAL `FastEncoderMode::get_next_symbol` on an arbitrary window, arbitrary reps and
// ARBITRARY match-finder answers that satisfy the match finder's contract (every reported pair is a true, maximal match:
// decided for HC4/BT4 by c01h_*).  The match finder is an environment stub: `LZEncoder::find_matches` advances the window
// by one byte and returns the harness-chosen answer for that position, `LZEncoder::skip` advances the window.
// Decided: whatever the parser decides to code - literal, rep match or normal match - describes the bytes that are really
// at the symbol's position (so the decoder, which copies from its dictionary, reproduces them), the length never exceeds
// the available data, and the window / look-ahead accounting stays consistent.
const PW: usize = 12;
static mut MF_CALLS: usize = 0;
static mut MF_BASE: usize = 0;
static mut MF_COUNT: [u32; 2] = [0; 2];
static mut MF_LEN: [[u32; 3]; 2] = [[0; 3]; 2];
static mut MF_DIST: [[i32; 3]; 2] = [[0; 3]; 2];

fn stub_find_matches(lz: &mut LZEncoder) {
    unsafe {
        lz.data.read_pos += 1;
        let k = MF_BASE + MF_CALLS;
        MF_CALLS += 1;
        assert!(k < 2, "verif: parser asked the match finder more often than the harness provides answers for");
        lz.matches.count = MF_COUNT[k];
        let mut i = 0;
        while i < 3 {
            lz.matches.len[i] = MF_LEN[k][i];
            lz.matches.dist[i] = MF_DIST[k][i];
            i += 1;
        }
    }
}

/// The specification of `lz::extend_match` (the real function is decided equal to it by c14a_extend_match_spec in both builds);
/// used instead of the word-at-a-time implementation to keep the parser harness within reach.
fn spec_extend_match(buf: &[u8], read_pos: i32, current_len: i32, distance: i32, limit: i32) -> i32 {
    let mut len = current_len;
    while len < limit && buf[(read_pos + len) as usize] == buf[(read_pos + len - distance) as usize] {
        len += 1;
    }
    len
}

fn stub_skip(lz: &mut LZEncoder, len: usize) {
    lz.data.read_pos += len as i32;
}

/// Chooses an arbitrary contract-conforming answer of the match finder for window position `rp`.
fn any_mf_answer(k: usize, buf: &[u8], rp: i32, write_pos: i32) {
    let count: u32 = kani::any();
    kani::assume(count <= 2);
    let limit = (write_pos - rp).min(273);
    let mut prev = 1u32;
    let mut i = 0;
    while i < 3 {
        let len: u32 = kani::any();
        let dist: i32 = kani::any();
        if (i as u32) < count {
            kani::assume(dist >= 0 && dist < rp && dist < 4096);
            kani::assume(len > prev && len as i32 <= limit);
            // true and maximal: the real extend_match (decided against its spec by c14a_extend_match_spec) is the oracle
            kani::assume(spec_extend_match(buf, rp, 0, dist + 1, limit) == len as i32);
            prev = len;
        }
        unsafe {
            MF_LEN[k][i] = len;
            MF_DIST[k][i] = dist;
        }
        i += 1;
    }
    unsafe { MF_COUNT[k] = count; }
}

fn fast_parser_sound(fresh: bool) {
    let content: [u8; PW] = kani::any();
    let start: usize = kani::any();
    kani::assume(start >= 1 && start <= PW - 5);
    let mut enc = small_encoder(&[0u8; W], 1);
    enc.lz.data.buf = content.to_vec();
    enc.lz.data.buf_size = PW;
    enc.lz.data.buf_limit_u16 = PW - 2;
    enc.lz.data.write_pos = PW as i32;
    enc.data.nice_len = 5; // small enough for the "nice length reached" early exits to be reachable in a 12-byte window
    enc.lz.data.match_len_max = 273; // as in the real encoder (MATCH_LEN_MAX); verify_matches() uses it as the length limit
    let reps: [i32; 4] = kani::any();
    kani::assume(reps[0] >= 0 && reps[1] >= 0 && reps[2] >= 0 && reps[3] >= 0);
    kani::assume((reps[0] as usize) < start && (reps[1] as usize) < start && (reps[2] as usize) < start && (reps[3] as usize) < start);
    enc.coder.reps = reps;
    let s = start as i32;
    any_mf_answer(0, &content, s, PW as i32);
    any_mf_answer(1, &content, s + 1, PW as i32);
    unsafe {
        MF_CALLS = 0;
        if fresh {
            // the previous symbol consumed all look-ahead: the parser asks the match finder for this position itself
            MF_BASE = 0;
            enc.lz.data.read_pos = s - 1;
            enc.data.read_ahead = -1;
        } else {
            // the previous call already looked at this position (it returned a literal after its look-ahead)
            MF_BASE = 1;
            enc.lz.data.read_pos = s;
            enc.data.read_ahead = 0;
            enc.lz.matches.count = MF_COUNT[0];
            let mut i = 0;
            while i < 3 {
                enc.lz.matches.len[i] = MF_LEN[0][i];
                enc.lz.matches.dist[i] = MF_DIST[0][i];
                i += 1;
            }
        }
    }
    let mut mode = FastEncoderMode::default();
    let len = mode.get_next_symbol(&mut enc) as i32;
    let back = enc.data.back;
    // accounting: the symbol still starts at `start`, and everything up to read_pos has been handed to the match finder
    assert!(enc.lz.data.read_pos - enc.data.read_ahead == s, "C01-I: symbol start moved (read_pos / read_ahead accounting)");
    assert!(enc.data.read_ahead >= len - 1, "C01-I: parser returned a length it has not advanced the window over");
    assert!(len >= 1 && s + len <= PW as i32, "C01-I: symbol longer than the available data");
    assert!(back >= -1);
    if back == -1 {
        assert!(len == 1, "C01-I: literal with a length other than 1");
    } else {
        let dist = if back < 4 { reps[back as usize] } else { back - 4 };
        assert!(len >= 2 || (back == 0 && len == 1), "C01-I: match shorter than 2 (only the short rep may have length 1)");
        assert!(dist >= 0 && dist < s, "C15: chosen distance reaches before the window");
        let j: i32 = kani::any();
        kani::assume(j >= 0 && j < len);
        assert!(content[(s + j) as usize] == content[(s + j - dist - 1) as usize],
            "C01-I: parser chose a (distance, length) whose bytes do not match: the decoder would reproduce other data");
    }
    kani::cover!(back == -1 && unsafe { MF_CALLS } == 2 - unsafe { MF_BASE }, "literal chosen after look-ahead");
    kani::cover!(back >= 0 && back < 4 && len >= 2, "rep match chosen");
    kani::cover!(back >= 4, "normal match chosen");
    kani::cover!(back >= 4 && len >= 5, "nice-length match");
    core::mem::forget(enc);
}

//@ {"replay":"model","name":"c01i_fast_parser_sound_fresh","props":["C01","C15","C13"],"obligation":"C01-I","stubbing":true,"timeout":7200,"mem_gb":13,"functions":["enc::encoder_fast::FastEncoderMode::get_next_symbol","enc::encoder::LZMAEncoder::find_matches","enc::encoder::LZMAEncoder::skip","lz::lz_encoder::LZEncoderData::get_match_len","lz::lz_encoder::LZEncoderData::verify_matches","lz::extend_match"],"bounds":"12-byte window with arbitrary content, symbol start 1..=7 (at least 4 bytes of look-ahead), nice_len 5, any reps inside the window, up to 2 arbitrary contract-conforming matches per match-finder call (2 calls); entry without look-ahead left over (the parser calls the match finder itself); unwind 14","assumes":["match finder contract (true, maximal, strictly increasing matches inside the window: c01h_*)","rep distances inside the window"],"stubs":["LZEncoder::find_matches / LZEncoder::skip -> environment stubs","lz::extend_match -> its byte-loop specification (equivalence: c14a_extend_match_spec)"]}
#[kani::proof]
#[kani::unwind(14)]
#[kani::stub(crate::lz::lz_encoder::LZEncoder::find_matches, stub_find_matches)]
#[kani::stub(crate::lz::lz_encoder::LZEncoder::skip, stub_skip)]
#[kani::stub(crate::lz::extend_match, spec_extend_match)]
fn c01i_fast_parser_sound_fresh() {
    fast_parser_sound(true);
}

//@ {"replay":"model","name":"c01i_fast_parser_sound_lookahead","props":["C01","C15","C13"],"obligation":"C01-I","stubbing":true,"timeout":7200,"mem_gb":13,"functions":["enc::encoder_fast::FastEncoderMode::get_next_symbol"],"bounds":"as c01i_fast_parser_sound_fresh, entered with the matches of the current position left by the previous call's look-ahead (read_ahead = 0)","assumes":["match finder contract (c01h_*)","rep distances inside the window"],"stubs":["LZEncoder::find_matches / LZEncoder::skip -> environment stubs","lz::extend_match -> its byte-loop specification (equivalence: c14a_extend_match_spec)"]}
#[kani::proof]
#[kani::unwind(14)]
#[kani::stub(crate::lz::lz_encoder::LZEncoder::find_matches, stub_find_matches)]
#[kani::stub(crate::lz::lz_encoder::LZEncoder::skip, stub_skip)]
#[kani::stub(crate::lz::extend_match, spec_extend_match)]
fn c01i_fast_parser_sound_lookahead() {
    fast_parser_sound(false);
}

