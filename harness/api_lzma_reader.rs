//@@ {"inject":"src/lzma_reader.rs","mod":"verif_api_lzma_reader","raw":true,"always":true}
#[cfg(kani)]
#[allow(dead_code)]
impl<R> LZMAReader<R> {
    pub(crate) fn verif_dict_buf_size(&self) -> usize {
        self.lz.verif_buf_size()
    }
}
