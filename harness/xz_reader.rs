//@@ {"inject":"src/xz/reader.rs","features":"encoder,xz"}

fn crc32_of(a: &[u8]) -> u32 {
    CRC32.checksum(a)
}

// C04-A / C06-E: stream header parser on arbitrary 12 bytes: total, and Ok only if magic, flags and CRC32 are right.
//@ {"name":"c04a_stream_header_site","props":["C04","C06","C03"],"obligation":"C04-A","timeout":600,"functions":["xz::reader::StreamHeader::parse","xz::reader::StreamHeader::parse_flags_and_crc","xz::CheckType::from_byte","crc::Crc<u32>::checksum"],"bounds":"any 12 bytes, source length 0..=12 (truncation symbolic); unwind 13","assumes":[]}
#[kani::proof]
#[kani::unwind(13)]
fn c04a_stream_header_site() {
    let mut src = Src::<12>::any();
    let bytes = src.buf;
    let len = src.len;
    match StreamHeader::parse(&mut src) {
        Ok(h) => {
            assert!(len == 12 && src.pos == 12);
            assert!(bytes[0] == 0xFD && bytes[1] == b'7' && bytes[2] == b'z' && bytes[3] == b'X' && bytes[4] == b'Z' && bytes[5] == 0);
            assert!(bytes[6] == 0);
            assert!(bytes[7] == h.check_type as u8);
            assert!(bytes[7] == 0 || bytes[7] == 1 || bytes[7] == 4 || bytes[7] == 10);
            let stored = u32::from_le_bytes([bytes[8], bytes[9], bytes[10], bytes[11]]);
            assert!(stored == crc32_of(&bytes[6..8]), "C04-A: stream header accepted with wrong CRC32");
            kani::cover!(bytes[7] == 10, "sha256 stream accepted");
        }
        Err(e) => {
            kani::cover!(is_eof(&e), "truncated header is EOF error");
            kani::cover!(is_invalid_data(&e) && len == 12, "full-length header rejected");
        }
    }
    kani::cover!(true, "end reached");
}

// C04-A / C06-E: stream footer parser on arbitrary 12 bytes.
//@ {"name":"c04a_stream_footer_site","props":["C04","C06","C03"],"obligation":"C04-A","timeout":600,"functions":["xz::reader::StreamFooter::parse"],"bounds":"any 12 bytes, source length 0..=12; unwind 13","assumes":[]}
#[kani::proof]
#[kani::unwind(13)]
fn c04a_stream_footer_site() {
    let mut src = Src::<12>::any();
    let bytes = src.buf;
    let len = src.len;
    match StreamFooter::parse(&mut src) {
        Ok(f) => {
            assert!(len == 12 && src.pos == 12);
            let stored = u32::from_le_bytes([bytes[0], bytes[1], bytes[2], bytes[3]]);
            assert!(stored == crc32_of(&bytes[4..10]), "C04-A: stream footer accepted with wrong CRC32");
            assert!(bytes[10] == b'Y' && bytes[11] == b'Z');
            assert!(f.backward_size == u32::from_le_bytes([bytes[4], bytes[5], bytes[6], bytes[7]]));
            assert!(f.stream_flags[0] == bytes[8] && f.stream_flags[1] == bytes[9]);
            kani::cover!(f.backward_size != 0, "non-trivial backward size");
        }
        Err(e) => {
            kani::cover!(is_eof(&e), "truncated footer");
        }
    }
    kani::cover!(true, "end reached");
}

// Spec model of the 8-byte block header with one LZMA2 filter (xz-file-format 1.2.0 section 3.1):
//   [size=0x01][flags][0x21][0x01][dict prop][pad 0..][crc32 x4]   -- with flags==0 there is exactly this layout.
fn spec_dict_size(prop: u8) -> u32 {
    if prop == 40 { 0xFFFF_FFFF } else { (2 | (prop as u32 & 1)) << (prop as u32 / 2 + 11) }
}

// C06-E: BlockHeader::parse is total on every 8-byte header (size byte 0x01; it can never hold an LZMA2 filter, so it
// must always be rejected).  The flags byte decides the layout and is concrete per harness; the other 6 bytes are arbitrary.
fn bh8_total(flags: u8) {
    let mut b: [u8; 8] = kani::any();
    b[0] = 0x01;
    b[1] = flags;
    let mut src = Src::<8>::full(b);
    match BlockHeader::parse(&mut src) {
        Ok(_) => panic!("C06-E: an 8-byte block header cannot contain an LZMA2 filter and must be rejected"),
        Err(e) => {
            kani::cover!(is_invalid_data(&e), "rejected as invalid data");
        }
    }
    kani::cover!(true, "end reached");
}
//@ {"name":"c06e_block_header8_total_f00","props":["C06","C04"],"tier":"thorough","obligation":"C06-E","timeout":1800,"mem_gb":20,"functions":["xz::reader::BlockHeader::parse","xz::parse_multibyte_integer","xz::count_multibyte_integer_size","xz::FilterType::try_from"],"bounds":"8-byte header: size byte 0x01 and flags byte 0x00 concrete (layout), other 6 bytes arbitrary; unwind 12","assumes":["layout bytes concrete"]}
#[kani::proof]
#[kani::unwind(12)]
fn c06e_block_header8_total_f00() { bh8_total(0x00); }
//@ {"name":"c06e_block_header8_total_f01","props":["C06","C04"],"tier":"thorough","obligation":"C06-E","timeout":1800,"mem_gb":20,"functions":["xz::reader::BlockHeader::parse","xz::parse_multibyte_integer","xz::count_multibyte_integer_size","xz::FilterType::try_from"],"bounds":"8-byte header: size byte 0x01 and flags byte 0x01 concrete (layout), other 6 bytes arbitrary; unwind 12","assumes":["layout bytes concrete"]}
#[kani::proof]
#[kani::unwind(12)]
fn c06e_block_header8_total_f01() { bh8_total(0x01); }
//@ {"name":"c06e_block_header8_total_f40","props":["C06","C04"],"tier":"quick","obligation":"C06-E","timeout":900,"mem_gb":12,"functions":["xz::reader::BlockHeader::parse","xz::parse_multibyte_integer","xz::count_multibyte_integer_size","xz::FilterType::try_from"],"bounds":"8-byte header: size byte 0x01 and flags byte 0x40 concrete (layout), other 6 bytes arbitrary; unwind 12","assumes":["layout bytes concrete"]}
#[kani::proof]
#[kani::unwind(12)]
fn c06e_block_header8_total_f40() { bh8_total(0x40); }
//@ {"name":"c06e_block_header8_total_f80","props":["C06","C04"],"tier":"thorough","obligation":"C06-E","timeout":1800,"mem_gb":20,"functions":["xz::reader::BlockHeader::parse","xz::parse_multibyte_integer","xz::count_multibyte_integer_size","xz::FilterType::try_from"],"bounds":"8-byte header: size byte 0x01 and flags byte 0x80 concrete (layout), other 6 bytes arbitrary; unwind 12","assumes":["layout bytes concrete"]}
#[kani::proof]
#[kani::unwind(12)]
fn c06e_block_header8_total_f80() { bh8_total(0x80); }
//@ {"name":"c06e_block_header8_total_fc3","props":["C06","C04"],"tier":"quick","obligation":"C06-E","timeout":900,"mem_gb":12,"functions":["xz::reader::BlockHeader::parse","xz::parse_multibyte_integer","xz::count_multibyte_integer_size","xz::FilterType::try_from"],"bounds":"8-byte header: size byte 0x01 and flags byte 0xc3 concrete (layout), other 6 bytes arbitrary; unwind 12","assumes":["layout bytes concrete"]}
#[kani::proof]
#[kani::unwind(12)]
fn c06e_block_header8_total_fc3() { bh8_total(0xc3); }
//@ {"name":"c06e_block_header8_total_f02","props":["C06","C04"],"tier":"thorough","obligation":"C06-E","timeout":900,"mem_gb":12,"functions":["xz::reader::BlockHeader::parse","xz::parse_multibyte_integer","xz::count_multibyte_integer_size","xz::FilterType::try_from"],"bounds":"8-byte header: size byte 0x01 and flags byte 0x02 concrete (layout), other 6 bytes arbitrary; unwind 12","assumes":["layout bytes concrete"]}
#[kani::proof]
#[kani::unwind(12)]
fn c06e_block_header8_total_f02() { bh8_total(0x02); }
//@ {"name":"c06e_block_header8_total_f03","props":["C06","C04"],"tier":"thorough","obligation":"C06-E","timeout":900,"mem_gb":12,"functions":["xz::reader::BlockHeader::parse","xz::parse_multibyte_integer","xz::count_multibyte_integer_size","xz::FilterType::try_from"],"bounds":"8-byte header: size byte 0x01 and flags byte 0x03 concrete (layout), other 6 bytes arbitrary; unwind 12","assumes":["layout bytes concrete"]}
#[kani::proof]
#[kani::unwind(12)]
fn c06e_block_header8_total_f03() { bh8_total(0x03); }
//@ {"name":"c06e_block_header8_total_f41","props":["C06","C04"],"tier":"thorough","obligation":"C06-E","timeout":900,"mem_gb":12,"functions":["xz::reader::BlockHeader::parse","xz::parse_multibyte_integer","xz::count_multibyte_integer_size","xz::FilterType::try_from"],"bounds":"8-byte header: size byte 0x01 and flags byte 0x41 concrete (layout), other 6 bytes arbitrary; unwind 12","assumes":["layout bytes concrete"]}
#[kani::proof]
#[kani::unwind(12)]
fn c06e_block_header8_total_f41() { bh8_total(0x41); }
//@ {"name":"c06e_block_header8_total_f81","props":["C06","C04"],"tier":"thorough","obligation":"C06-E","timeout":900,"mem_gb":12,"functions":["xz::reader::BlockHeader::parse","xz::parse_multibyte_integer","xz::count_multibyte_integer_size","xz::FilterType::try_from"],"bounds":"8-byte header: size byte 0x01 and flags byte 0x81 concrete (layout), other 6 bytes arbitrary; unwind 12","assumes":["layout bytes concrete"]}
#[kani::proof]
#[kani::unwind(12)]
fn c06e_block_header8_total_f81() { bh8_total(0x81); }
//@ {"name":"c06e_block_header8_total_fc0","props":["C06","C04"],"tier":"thorough","obligation":"C06-E","timeout":900,"mem_gb":12,"functions":["xz::reader::BlockHeader::parse","xz::parse_multibyte_integer","xz::count_multibyte_integer_size","xz::FilterType::try_from"],"bounds":"8-byte header: size byte 0x01 and flags byte 0xc0 concrete (layout), other 6 bytes arbitrary; unwind 12","assumes":["layout bytes concrete"]}
#[kani::proof]
#[kani::unwind(12)]
fn c06e_block_header8_total_fc0() { bh8_total(0xc0); }
//@ {"name":"c06e_block_header8_total_f3c","props":["C06","C04"],"tier":"thorough","obligation":"C06-E","timeout":900,"mem_gb":12,"functions":["xz::reader::BlockHeader::parse","xz::parse_multibyte_integer","xz::count_multibyte_integer_size","xz::FilterType::try_from"],"bounds":"8-byte header: size byte 0x01 and flags byte 0x3c concrete (layout), other 6 bytes arbitrary; unwind 12","assumes":["layout bytes concrete"]}
#[kani::proof]
#[kani::unwind(12)]
fn c06e_block_header8_total_f3c() { bh8_total(0x3c); }

// C04-A / C06-E / C03-D: BlockHeader::parse on every 12-byte header with flags 0x00 (one filter, no size fields): Ok only for
// the single layout the spec allows, with the right CRC32, and the dictionary size the spec formula gives.
//@ {"name":"c04a_block_header12_f00","props":["C04","C06","C03"],"tier":"thorough","obligation":"C04-A","timeout":5400,"mem_gb":26,"functions":["xz::reader::BlockHeader::parse","xz::parse_multibyte_integer","xz::count_multibyte_integer_size","xz::FilterType::try_from"],"bounds":"12-byte header: size byte 0x02 and flags byte 0x00 concrete (layout), the other 10 bytes arbitrary; unwind 12","assumes":["layout bytes concrete: header_size_encoded=2, block_flags=0"]}
#[kani::proof]
#[kani::unwind(12)]
fn c04a_block_header12_f00() {
    let mut b: [u8; 12] = kani::any();
    b[0] = 0x02;
    b[1] = 0x00;
    let mut src = Src::<12>::full(b);
    match BlockHeader::parse(&mut src) {
        Ok(Some(h)) => {
            assert!(src.pos == 12);
            let stored = u32::from_le_bytes([b[8], b[9], b[10], b[11]]);
            assert!(stored == crc32_of(&b[..8]), "C04-A: block header accepted with wrong CRC32");
            // (no claim about the exact byte layout: the parser accepts non-minimal multibyte integers such as
            //  81 80 00 for 1, which the reference decoder rejects - same meaning, so not a C04 matter)
            assert!(b[2] == 0x21, "C04-A: accepted header does not name the LZMA2 filter");
            assert!(h.compressed_size.is_none() && h.uncompressed_size.is_none());
            assert!(h.filters[0] == Some(FilterType::LZMA2) && h.filters[1].is_none());
            let v = h.properties[0];
            let pow2 = |x: u32| x != 0 && (x & (x - 1)) == 0;
            assert!(v >= 4096 && (v == u32::MAX || pow2(v) || (v % 3 == 0 && pow2(v / 3))), "C04-A: dictionary size is not one the format can express");
            kani::cover!(v == u32::MAX, "4 GiB-1 dictionary accepted");
            kani::cover!(b[3] != 0x01, "non-minimal multibyte integer accepted");
        }
        Ok(None) => unreachable!(),
        Err(_) => {}
    }
    kani::cover!(true, "end reached");
}

// C04-A (quick representative of the block-header CRC site): a valid 12-byte header with ARBITRARY stored CRC bytes is
// accepted iff the stored CRC32 equals the CRC32 of the header bytes.
//@ {"name":"c04a_block_header12_crc_site","props":["C04","C06"],"obligation":"C04-A","timeout":1200,"mem_gb":9,"functions":["xz::reader::BlockHeader::parse"],"bounds":"header bytes [02 00 21 01 <dict prop 0..=40, symbolic> 00 00 00] + 4 arbitrary CRC bytes; unwind 12","assumes":["value bytes follow the specification layout; only the dictionary property and the stored CRC are symbolic (the fully symbolic 10-byte variant is c04a_block_header12_f00, thorough tier: 106 M clauses, 23 min)"]}
#[kani::proof]
#[kani::unwind(12)]
fn c04a_block_header12_crc_site() {
    let prop: u8 = kani::any();
    kani::assume(prop <= 40);
    let stored: [u8; 4] = kani::any();
    let b = [0x02u8, 0x00, 0x21, 0x01, prop, 0, 0, 0, stored[0], stored[1], stored[2], stored[3]];
    let mut src = Src::<12>::full(b);
    let r = BlockHeader::parse(&mut src);
    let good = u32::from_le_bytes(stored) == crc32_of(&b[..8]);
    assert!(r.is_ok() == good, "C04-A: block header CRC32 comparison wrong");
    kani::cover!(good, "matching CRC");
    kani::cover!(!good, "mismatching CRC");
}

// C03-D: a reference-style 12-byte header (spec layout, any dictionary property, correct CRC) is accepted.
//@ {"name":"c03d_block_header12_accept","props":["C03","C02"],"obligation":"C03-D","timeout":1200,"mem_gb":12,"functions":["xz::reader::BlockHeader::parse"],"bounds":"dictionary property 0..=40 symbolic; header built by the spec model","assumes":[]}
#[kani::proof]
#[kani::unwind(12)]
fn c03d_block_header12_accept() {
    let prop: u8 = kani::any();
    kani::assume(prop <= 40);
    let mut b = [0x02u8, 0x00, 0x21, 0x01, prop, 0, 0, 0, 0, 0, 0, 0];
    let c = crc32_of(&b[..8]).to_le_bytes();
    b[8] = c[0]; b[9] = c[1]; b[10] = c[2]; b[11] = c[3];
    let mut src = Src::<12>::full(b);
    let r = BlockHeader::parse(&mut src);
    assert!(r.is_ok(), "C03-D: spec-conformant block header rejected");
    let h = r.unwrap().unwrap();
    assert!(h.properties[0] == spec_dict_size(prop));
    assert!(h.properties[0] >= 4096);
    kani::cover!(prop == 0, "smallest dictionary");
    kani::cover!(prop == 40, "largest dictionary");
}

// ---------------------------------------------------------------------------------------------- Index

// C06-E: Index::parse with an untrusted record count: no panic, and the up-front allocation is bounded by a constant
// (it must not be proportional to a count the input merely declares).  The count field's LENGTH is concrete per
// harness and the input ends right behind it.
fn index_count_alloc<const N: usize>(fill: u8, last: u8) {
    // count field = N-1 bytes `fill | 0x80` followed by `last` (< 0x80): a CONCRETE huge count (a symbolic one keeps
    // the "shorter field" layouts alive in CBMC's symbolic execution: 413 s + out of memory for a 2-byte field)
    let mut b = [fill | 0x80; N];
    b[N - 1] = last & 0x7F;
    let mut src = Src::<N>::full(b);
    let r = Index::parse(&mut src);
    match r {
        Ok(ix) => {
            core::mem::forget(ix);
            panic!("C06-E: index with a huge declared count and no records accepted");
        }
        Err(e) => {
            assert!(is_eof(&e) || is_invalid_data(&e));
            kani::cover!(is_eof(&e), "huge declared count ends in an EOF error, not in a panic");
        }
    }
    kani::cover!(true, "end reached");
}

//@ {"name":"c06e_index_count_alloc","props":["C06"],"no_inputs":true,"obligation":"C06-E","timeout":900,"mem_gb":9,"functions":["xz::reader::Index::parse","xz::parse_multibyte_integer_from_reader","alloc::vec::Vec::with_capacity"],"bounds":"record count 2^63-1 (9-byte field, concrete) followed by end of input; unwind 11","assumes":["concrete scenario: no symbolic input (see comment)"]}
#[kani::proof]
#[kani::unwind(11)]
fn c06e_index_count_alloc() { index_count_alloc::<9>(0x7F, 0x7F); }

//@ {"name":"c06e_index_count_alloc_2p24","props":["C06"],"no_inputs":true,"obligation":"C06-E","timeout":900,"mem_gb":9,"functions":["xz::reader::Index::parse","alloc::vec::Vec::with_capacity"],"bounds":"record count 2^24 (4-byte field, concrete: a 256 MiB pre-allocation if the count were trusted) followed by end of input; unwind 11","assumes":["concrete scenario"]}
#[kani::proof]
#[kani::unwind(11)]
fn c06e_index_count_alloc_2p24() {
    // 2^24 = 0x80 0x80 0x80 0x08
    let b = [0x80u8, 0x80, 0x80, 0x08];
    let mut src = Src::<4>::full(b);
    let r = Index::parse(&mut src);
    assert!(r.is_err());
    // the reader must not have asked the allocator for 2^24 records (16 bytes each) up front: observable here only as
    // "no panic / no allocation failure"; the allocation size itself is checked natively by the seeded demo
    kani::cover!(true, "end reached");
}

// C04-A: Index::parse, record count concrete per harness (layout), every other byte arbitrary:
// Ok only with zero padding and the right CRC32 over indicator+count+records+padding.
//@ {"name":"c04a_index_zero_records","props":["C04","C06"],"obligation":"C04-A","timeout":900,"mem_gb":12,"functions":["xz::reader::Index::parse","xz::encode_multibyte_integer","xz::count_multibyte_integer_size_for_value"],"bounds":"count byte 0x00 concrete; 2 padding bytes and 4 CRC bytes arbitrary; unwind 11","assumes":["record count concrete = 0"]}
#[kani::proof]
#[kani::unwind(11)]
fn c04a_index_zero_records() {
    let mut b: [u8; 7] = kani::any();
    b[0] = 0x00;
    let mut src = Src::<7>::full(b);
    match Index::parse(&mut src) {
        Ok(ix) => {
            assert!(src.pos == 7);
            assert!(ix.number_of_records == 0 && ix.records.is_empty());
            assert!(b[1] == 0 && b[2] == 0, "C04-A: non-zero index padding accepted");
            let stored = u32::from_le_bytes([b[3], b[4], b[5], b[6]]);
            assert!(stored == crc32_of(&[0u8, 0, 0, 0]), "C04-A: index accepted with wrong CRC32");
            kani::cover!(true, "empty index accepted");
            core::mem::forget(ix);
        }
        Err(e) => {
            kani::cover!(is_invalid_data(&e), "rejected");
        }
    }
    kani::cover!(true, "end reached");
}

//@ {"name":"c04a_index_one_record","props":["C04","C06"],"tier":"thorough","obligation":"C04-A","timeout":2400,"mem_gb":20,"functions":["xz::reader::Index::parse","xz::encode_multibyte_integer","xz::count_multibyte_integer_size_for_value"],"bounds":"count byte 0x01 concrete; two one-byte record fields arbitrary (< 0x80) and 4 CRC bytes arbitrary; unwind 11","assumes":["record count concrete = 1","record fields are single-byte multibyte integers (layout concrete)"]}
#[kani::proof]
#[kani::unwind(11)]
fn c04a_index_one_record() {
    let mut b: [u8; 7] = kani::any();
    b[0] = 0x01;
    kani::assume(b[1] < 0x80 && b[2] < 0x80);
    let mut src = Src::<7>::full(b);
    match Index::parse(&mut src) {
        Ok(ix) => {
            assert!(src.pos == 7);
            assert!(ix.number_of_records == 1 && ix.records.len() == 1);
            assert!(ix.records[0].unpadded_size == b[1] as u64 && b[1] != 0);
            assert!(ix.records[0].uncompressed_size == b[2] as u64);
            let stored = u32::from_le_bytes([b[3], b[4], b[5], b[6]]);
            assert!(stored == crc32_of(&[0u8, 1, b[1], b[2]]), "C04-A: index accepted with wrong CRC32");
            kani::cover!(b[2] == 0, "record of an empty block accepted");
            core::mem::forget(ix);
        }
        Err(e) => {
            kani::cover!(is_invalid_data(&e), "rejected");
        }
    }
    kani::cover!(true, "end reached");
}

// ---------------------------------------------------------------------------------------------- reader state machine

// Sources and sinks are always kept OUTSIDE the reader/writer under test and passed as `&mut`: a source moved into the
// reader ends up inside `Rc<RefCell<..>>` behind a `Box<dyn Read>`, where CBMC no longer constant-folds its position
// (measured on the same harness: > 1800 s with the source inside, 10 s with `&mut`).
fn fresh_reader<'a, const N: usize>(src: &'a mut Src<N>, multi: bool) -> XZReader<'a, &'a mut Src<N>> {
    XZReader::new(src, multi)
}

// C05-C / C04-B: block padding after the compressed data: for every count of compressed bytes, the right number of
// zero bytes is consumed even if the source hands them over one byte per read call; non-zero padding is an error.
//@ {"name":"c05c_block_padding_short_reads","props":["C05","C04"],"obligation":"C05-C","timeout":600,"functions":["xz::reader::XZReader::consume_padding","xz::reader::SharedReader::read"],"bounds":"compressed_bytes_read: every value < 2^62; source: 3 arbitrary bytes, delivers `chunk` in 1..=3 bytes per read call (symbolic)","assumes":["source holds at least the padding bytes"]}
#[kani::proof]
#[kani::unwind(6)]
fn c05c_block_padding_short_reads() {
    let mut src = FaultySrc::<3>::new(kani::any(), 3);
    let chunk: usize = kani::any();
    kani::assume(chunk >= 1 && chunk <= 3);
    src.chunk = chunk;
    let bytes = src.buf;
    let mut r = XZReader::new(&mut src, false);
    let n: u64 = kani::any();
    kani::assume(n < (1u64 << 62)); // a counter of bytes really read; 2^62 bytes cannot have been read
    r.compressed_bytes_read.set(n);
    let need = ((4 - (n % 4)) % 4) as usize;
    let res = r.consume_padding();
    let consumed = r.original_reader.borrow().pos;
    let all_zero = (need < 1 || bytes[0] == 0) && (need < 2 || bytes[1] == 0) && (need < 3 || bytes[2] == 0);
    if all_zero {
        assert!(res.is_ok(), "C05-C: legal short read of block padding reported as corruption");
        assert!(consumed == need);
    } else {
        assert!(res.is_err(), "C04-B: non-zero block padding accepted");
    }
    kani::cover!(need == 3 && chunk == 1 && all_zero, "three padding bytes, one byte per read");
    kani::cover!(need == 0, "no padding needed");
    core::mem::forget(r);
}

// C05-C: truncated padding is an error (EOF inside padding).
//@ {"name":"c05c_block_padding_truncated","props":["C05"],"obligation":"C05-C","timeout":600,"functions":["xz::reader::XZReader::consume_padding"],"bounds":"compressed_bytes_read: every value < 2^62; source: 0..=2 zero bytes then EOF","assumes":[]}
#[kani::proof]
#[kani::unwind(6)]
fn c05c_block_padding_truncated() {
    let len: usize = kani::any();
    kani::assume(len <= 2);
    let mut src = Src::<3>::new([0u8; 3], len);
    let mut r = fresh_reader(&mut src, false);
    let n: u64 = kani::any();
    kani::assume(n < (1u64 << 62)); // a counter of bytes really read; 2^62 bytes cannot have been read
    r.compressed_bytes_read.set(n);
    let need = ((4 - (n % 4)) % 4) as usize;
    let res = r.consume_padding();
    if need > len {
        assert!(res.is_err(), "C05: truncated block padding accepted");
    } else {
        assert!(res.is_ok());
    }
    kani::cover!(need == 3 && len == 2, "one byte missing");
    core::mem::forget(r);
}

// C04-B: block check comparison (CRC32 / CRC64): Ok iff the stored bytes equal the digest of the data fed.
//@ {"name":"c04b_block_check_crc32","props":["C04"],"obligation":"C04-B","timeout":900,"functions":["xz::reader::XZReader::verify_block_checksum","xz::ChecksumCalculator::update","xz::ChecksumCalculator::verify"],"bounds":"3 arbitrary data bytes fed to the calculator, 4 arbitrary stored check bytes; unwind 10","assumes":[]}
#[kani::proof]
#[kani::unwind(10)]
fn c04b_block_check_crc32() {
    let data: [u8; 3] = kani::any();
    let stored: [u8; 4] = kani::any();
    let mut src = Src::<4>::full(stored);
    let mut r = fresh_reader(&mut src, false);
    let mut calc = ChecksumCalculator::new(CheckType::Crc32);
    calc.update(&data);
    r.checksum_calculator = Some(calc);
    let res = r.verify_block_checksum();
    let good = u32::from_le_bytes(stored) == crc32_of(&data);
    assert!(res.is_ok() == good, "C04-B: CRC32 block check comparison wrong");
    kani::cover!(good, "matching check");
    kani::cover!(!good, "mismatching check");
    core::mem::forget(r);
}

//@ {"name":"c04b_block_check_crc64","props":["C04"],"obligation":"C04-B","timeout":900,"functions":["xz::reader::XZReader::verify_block_checksum","xz::ChecksumCalculator::update","xz::ChecksumCalculator::verify"],"bounds":"2 arbitrary data bytes, 8 arbitrary stored check bytes; unwind 10","assumes":[]}
#[kani::proof]
#[kani::unwind(10)]
fn c04b_block_check_crc64() {
    let data: [u8; 2] = kani::any();
    let stored: [u8; 8] = kani::any();
    let mut src = Src::<8>::full(stored);
    let mut r = fresh_reader(&mut src, false);
    let mut calc = ChecksumCalculator::new(CheckType::Crc64);
    calc.update(&data);
    r.checksum_calculator = Some(calc);
    let res = r.verify_block_checksum();
    let good = u64::from_le_bytes(stored) == crate::xz::CRC64.checksum(&data);
    assert!(res.is_ok() == good, "C04-B: CRC64 block check comparison wrong");
    kani::cover!(good, "matching check");
    kani::cover!(!good, "mismatching check");
    core::mem::forget(r);
}

// C04-B: truncated check field is an error for every check type.
//@ {"name":"c04b_block_check_truncated","props":["C04","C05"],"obligation":"C04-B","timeout":900,"functions":["xz::reader::XZReader::verify_block_checksum"],"bounds":"check type CRC32 or CRC64 (symbolic); stored field truncated to 0..size-1 bytes (symbolic)","assumes":[]}
#[kani::proof]
#[kani::unwind(10)]
fn c04b_block_check_truncated() {
    let wide: bool = kani::any();
    let size = if wide { 8 } else { 4 };
    let len: usize = kani::any();
    kani::assume(len < size);
    let mut src = Src::<8>::new(kani::any(), len);
    let mut r = fresh_reader(&mut src, false);
    r.checksum_calculator = Some(ChecksumCalculator::new(if wide { CheckType::Crc64 } else { CheckType::Crc32 }));
    let res = r.verify_block_checksum();
    assert!(res.is_err(), "C04-B: truncated block check accepted");
    kani::cover!(wide && len == 7, "crc64 one byte short");
    core::mem::forget(r);
}

// C12-A: stream padding / next stream detection.  Source = p zero bytes, then either a complete valid stream header,
// end of input, or garbage.
//@ {"name":"c12a_next_stream_after_padding","props":["C12"],"obligation":"C12-A","timeout":900,"functions":["xz::reader::XZReader::try_start_next_stream","xz::reader::StreamHeader::parse_flags_and_crc"],"bounds":"padding length p in 0..=5 (symbolic); check type of the following stream header symbolic over the 4 supported ids; unwind 10","assumes":[]}
fn next_stream_after_padding(pmax: usize) {
    let p: usize = kani::any();
    kani::assume(p <= pmax);
    let ct: u8 = kani::any();
    kani::assume(ct == 0 || ct == 1 || ct == 4 || ct == 10);
    let mut buf = [0u8; 21];
    let hdr = [0xFDu8, b'7', b'z', b'X', b'Z', 0, 0, ct];
    let c = crc32_of(&hdr[6..8]).to_le_bytes();
    for i in 0..8 {
        buf[p + i] = hdr[i];
    }
    for i in 0..4 {
        buf[p + 8 + i] = c[i];
    }
    let mut src = Src::<21>::new(buf, p + 12);
    let mut r = fresh_reader(&mut src, true);
    r.stream_header = Some(StreamHeader { check_type: CheckType::None });
    r.blocks_processed = kani::any(); // the previous stream may have had any number of blocks, including none
    kani::assume(r.blocks_processed <= 3);
    let empty_prev = r.blocks_processed == 0;
    let res = r.try_start_next_stream();
    if p % 4 == 0 {
        assert!(matches!(res, Ok(true)), "C12-A: valid next stream after legal stream padding not started");
        assert!(r.blocks_processed == 0);
        assert!(r.stream_header.as_ref().unwrap().check_type as u8 == ct);
        assert!(r.original_reader.borrow().pos == p + 12);
    } else {
        assert!(res.is_err(), "C12-A: stream padding that is not a multiple of four accepted");
    }
    kani::cover!(p == 4 && empty_prev, "four bytes of padding after an empty stream");
    kani::cover!(p == 0 && !empty_prev, "no padding");
    kani::cover!(p == 5, "illegal padding");
    core::mem::forget(r);
}
#[kani::proof]
#[kani::unwind(10)]
fn c12a_next_stream_after_padding() { next_stream_after_padding(5); }
//@ {"name":"c12a_next_stream_after_padding_p9","props":["C12"],"tier":"thorough","obligation":"C12-A","timeout":2400,"functions":["xz::reader::XZReader::try_start_next_stream","xz::reader::StreamHeader::parse_flags_and_crc"],"bounds":"padding length p in 0..=9 (symbolic); check type symbolic over the 4 supported ids; unwind 12","assumes":[]}
#[kani::proof]
#[kani::unwind(13)]
fn c12a_next_stream_after_padding_p9() { next_stream_after_padding(9); }

// C12-A: only zero bytes (any number) then end of input: no further stream, no error if multiple of 4.
//@ {"name":"c12a_padding_then_eof","props":["C12"],"obligation":"C12-A","timeout":900,"functions":["xz::reader::XZReader::try_start_next_stream"],"bounds":"p in 0..=5 zero bytes then EOF; unwind 8","assumes":[]}
#[kani::proof]
#[kani::unwind(8)]
fn c12a_padding_then_eof() {
    let p: usize = kani::any();
    kani::assume(p <= 5);
    let mut src = Src::<9>::new([0u8; 9], p);
    let mut r = fresh_reader(&mut src, true);
    let res = r.try_start_next_stream();
    // xz-file-format 2.2: stream padding must be a multiple of four bytes
    if p % 4 == 0 {
        assert!(matches!(res, Ok(false)));
    } else {
        assert!(res.is_err(), "C12-A: trailing stream padding that is not a multiple of four accepted");
    }
    kani::cover!(p == 4, "four trailing zero bytes");
    core::mem::forget(r);
}

// C12-A / C04 / C05: the input ends INSIDE the magic of a following stream (file cut 1..=5 bytes into a later stream): an
// error, never "no more streams" (the data of the later streams would be missing silently).
//@ {"name":"c12a_truncated_next_magic","props":["C12","C04","C05"],"obligation":"C12-A","timeout":900,"functions":["xz::reader::XZReader::try_start_next_stream"],"bounds":"p in {0, 4} zero bytes of stream padding, then the first k in 1..=5 bytes of the XZ magic, then end of input; unwind 8","assumes":[]}
#[kani::proof]
#[kani::unwind(8)]
fn c12a_truncated_next_magic() {
    let four: bool = kani::any();
    let p: usize = if four { 4 } else { 0 };
    let k: usize = kani::any();
    kani::assume(k >= 1 && k <= 5);
    let mut buf = [0u8; 10];
    let mut i = 0;
    while i < 5 {
        buf[p + i] = XZ_MAGIC[i];
        i += 1;
    }
    let mut src = Src::<10>::new(buf, p + k);
    let mut r = fresh_reader(&mut src, true);
    let res = r.try_start_next_stream();
    assert!(res.is_err(), "C12-A: input that ends inside the next stream's magic was taken for the end of the data");
    kani::cover!(k == 1, "only the first magic byte is present");
    kani::cover!(k == 5 && four, "five magic bytes after padding");
    core::mem::forget(r);
}

// C12-A: a non-zero, non-magic byte after the padding is an error, never a silent end of data.
//@ {"name":"c12a_garbage_after_stream","props":["C12","C04"],"obligation":"C12-A","timeout":900,"functions":["xz::reader::XZReader::try_start_next_stream"],"bounds":"p in 0..=4 zero bytes, then 6 arbitrary bytes not equal to the XZ magic with a non-zero first byte; unwind 8","assumes":[]}
#[kani::proof]
#[kani::unwind(8)]
fn c12a_garbage_after_stream() {
    let p: usize = kani::any();
    kani::assume(p <= 4);
    let g: [u8; 6] = kani::any();
    kani::assume(g[0] != 0);
    kani::assume(g != XZ_MAGIC);
    let mut buf = [0u8; 10];
    for i in 0..6 {
        buf[p + i] = g[i];
    }
    let mut src = Src::<10>::new(buf, p + 6);
    let mut r = fresh_reader(&mut src, true);
    let res = r.try_start_next_stream();
    assert!(res.is_err(), "C12-A: garbage after a stream not reported");
    kani::cover!(g[0] == 0xFD, "starts like the magic but is not");
    core::mem::forget(r);
}

// C07-E: a zero-length read in the middle of a block returns Ok(0) and does not disturb the stream (it must not be
// mistaken for the end of the block).
//@ {"name":"c07e_xz_zero_len_read_mid_block","props":["C07"],"no_inputs":true,"obligation":"C07-E","timeout":900,"functions":["xz::reader::XZReader::read"],"bounds":"reader in the state 'inside a block' (stream header parsed, CRC32 calculator active), inner chain = a source with 4 unread (concrete) bytes; destination length 0, then 4","assumes":["block chain replaced by a plain byte source (the filter chain is not the subject)"],"stubs":["block chain = Src"]}
#[kani::proof]
#[kani::unwind(10)]
fn c07e_xz_zero_len_read_mid_block() {
    // concrete payload: on a tree where the zero-length read falls through to the end-of-block path, symbolic bytes
    // would send CBMC through the whole block-header parser and filter-chain construction (measured: > 900 s)
    let data: [u8; 4] = [1, 2, 3, 4];
    let mut src = Src::<4>::full(data);
    let mut r = XZReader::new(&mut src, false);
    r.stream_header = Some(StreamHeader { check_type: CheckType::Crc32 });
    r.checksum_calculator = Some(ChecksumCalculator::new(CheckType::Crc32));
    r.blocks_processed = 1;
    let z = r.read(&mut []);
    assert!(matches!(z, Ok(0)), "C07-E: zero-length read failed");
    assert!(r.checksum_calculator.is_some(), "C07-E: zero-length read was treated as the end of the block");
    assert!(r.original_reader.borrow().pos == 0, "C07-E: zero-length read consumed input");
    let mut out = [0u8; 4];
    let n = r.read(&mut out);
    assert!(matches!(n, Ok(4)) && out == data, "C07-E: data after a zero-length read differs");
    kani::cover!(true, "end reached");
    core::mem::forget(r);
}

// C12-B / C16-C: with multi-stream decoding off, after the index and footer of the first stream the reader reports
// end of data, has consumed exactly index + footer, and does not look at what follows.
//@ {"name":"c16c_xz_stops_after_footer","props":["C16","C12"],"obligation":"C16-C","timeout":1800,"mem_gb":9,"functions":["xz::reader::XZReader::prepare_next_block","xz::reader::XZReader::parse_index_and_footer","xz::reader::Index::parse","xz::reader::StreamFooter::parse"],"bounds":"source = index indicator + empty index + footer of a CRC32 stream (20 concrete bytes) followed by 4 arbitrary trailing bytes; multi-stream off; unwind 24","assumes":[]}
#[kani::proof]
#[kani::unwind(24)]
fn c16c_xz_stops_after_footer() {
    let mut buf = [0u8; 24];
    // index: 00 | 00 (count) | 00 00 (padding) | crc32
    let ic = crc32_of(&[0u8, 0, 0, 0]).to_le_bytes();
    buf[4] = ic[0]; buf[5] = ic[1]; buf[6] = ic[2]; buf[7] = ic[3];
    // footer: crc32 | backward size (1 => (1+1)*4 = 8) | flags 00 01 | 'Y' 'Z'
    let body = [1u8, 0, 0, 0, 0, 1];
    let fc = crc32_of(&body).to_le_bytes();
    buf[8] = fc[0]; buf[9] = fc[1]; buf[10] = fc[2]; buf[11] = fc[3];
    let mut i = 0;
    while i < 6 { buf[12 + i] = body[i]; i += 1; }
    buf[18] = b'Y'; buf[19] = b'Z';
    let trailing: [u8; 4] = kani::any();
    i = 0;
    while i < 4 { buf[20 + i] = trailing[i]; i += 1; }
    let mut src = Src::<24>::full(buf);
    let mut r = XZReader::new(&mut src, false);
    r.stream_header = Some(StreamHeader { check_type: CheckType::Crc32 });
    let res = r.prepare_next_block();
    assert!(matches!(res, Ok(false)), "C16-C: valid index+footer not accepted as end of stream");
    assert!(r.finished);
    assert!(r.original_reader.borrow().pos == 20, "C16-C: reader did not stop exactly after the stream footer");
    let mut out = [0u8; 2];
    assert!(matches!(r.read(&mut out), Ok(0)));
    assert!(r.original_reader.borrow().pos == 20, "C16-C: bytes after the stream were consumed");
    kani::cover!(trailing[0] == 0xFD, "another stream follows");
    core::mem::forget(r);
}

// C04-A: end of stream: the index must list exactly as many records as blocks were decoded, and the footer's stream
// flags must equal the header's - otherwise blocks were dropped/duplicated or the check type was switched.
// (The footer bytes are concrete per harness: a CRC fixed up over a symbolic flags byte makes the parser's CRC
// comparison an equality of two symbolic CRC32 values - did not finish in 30 min.)
fn index_count_and_flags(fl: u8) {
    let mut buf = [0u8; 19];
    // index body after the indicator byte: 00 (count) | 00 00 (padding) | crc32 over [00 00 00 00]
    let ic = crc32_of(&[0u8, 0, 0, 0]).to_le_bytes();
    buf[3] = ic[0]; buf[4] = ic[1]; buf[5] = ic[2]; buf[6] = ic[3];
    let body = [1u8, 0, 0, 0, 0, fl];
    let fc = crc32_of(&body).to_le_bytes();
    buf[7] = fc[0]; buf[8] = fc[1]; buf[9] = fc[2]; buf[10] = fc[3];
    let mut i = 0;
    while i < 6 { buf[11 + i] = body[i]; i += 1; }
    buf[17] = b'Y'; buf[18] = b'Z';
    let mut src = Src::<19>::full(buf);
    let mut r = XZReader::new(&mut src, false);
    r.stream_header = Some(StreamHeader { check_type: CheckType::Crc32 });
    let blocks: u64 = kani::any();
    kani::assume(blocks <= 3);
    r.blocks_processed = blocks;
    let res = r.parse_index_and_footer();
    assert!(res.is_ok() == (blocks == 0 && fl == 1), "C04-A: stream end accepted although block count or stream flags disagree (or refused although they agree)");
    kani::cover!(blocks == 2, "blocks missing from the index");
    kani::cover!(blocks == 0, "count matches");
    core::mem::forget(r);
}

//@ {"name":"c04a_index_count_matches_blocks","props":["C04","C12"],"obligation":"C04-A","timeout":1800,"mem_gb":9,"functions":["xz::reader::XZReader::parse_index_and_footer","xz::reader::Index::parse","xz::reader::StreamFooter::parse"],"bounds":"valid empty index (0 records) + valid CRC32 footer (concrete bytes); blocks_processed symbolic 0..=3; unwind 8","assumes":[]}
#[kani::proof]
#[kani::unwind(8)]
fn c04a_index_count_matches_blocks() { index_count_and_flags(1); }

//@ {"name":"c04a_footer_flags_match_header","props":["C04"],"obligation":"C04-A","timeout":1800,"mem_gb":9,"functions":["xz::reader::XZReader::parse_index_and_footer","xz::reader::StreamFooter::parse"],"bounds":"as above, but the (CRC-consistent) footer names CRC64 while the stream header said CRC32; unwind 8","assumes":[]}
#[kani::proof]
#[kani::unwind(8)]
fn c04a_footer_flags_match_header() { index_count_and_flags(4); }

// C05: an I/O error from the source while the reader probes for a further stream (stream padding / first magic byte)
// must be returned to the caller - it must not be taken for the end of the input.
//@ {"name":"c05_xz_next_stream_source_error","props":["C05","C12"],"obligation":"C05-C","timeout":1200,"mem_gb":9,"functions":["xz::reader::XZReader::try_start_next_stream"],"bounds":"source = 0..=4 zero bytes of stream padding (symbolic) after which every read call fails with a non-retryable error; unwind 8","assumes":[]}
#[kani::proof]
#[kani::unwind(8)]
fn c05_xz_next_stream_source_error() {
    let p: usize = kani::any();
    kani::assume(p <= 4);
    let mut src = FaultySrc::<8>::new([0u8; 8], 8);
    src.chunk = 1;
    src.err_at = p; // the first p probe reads deliver a zero byte, the next one fails
    let mut r = XZReader::new(&mut src, true);
    let res = r.try_start_next_stream();
    assert!(matches!(res, Err(crate::Error::Other(_))), "C05: source error while looking for the next stream was swallowed");
    kani::cover!(p == 0, "error at the first probe");
    kani::cover!(p == 4, "error after four padding bytes");
    core::mem::forget(r);
}

// C05: an Interrupted from the source while probing for the next stream must be retried, not reported as a failure.
//@ {"name":"c05_xz_next_stream_interrupted","props":["C05"],"obligation":"C05-C","timeout":1200,"mem_gb":9,"functions":["xz::reader::XZReader::try_start_next_stream"],"bounds":"source = 4 zero bytes then end of input; one Interrupted at read call 0..=3 (symbolic); unwind 8","assumes":[]}
#[kani::proof]
#[kani::unwind(8)]
fn c05_xz_next_stream_interrupted() {
    let mut src = FaultySrc::<4>::new([0u8; 4], 4);
    src.chunk = 1;
    src.intr_at = kani::any();
    kani::assume(src.intr_at <= 3);
    let mut r = XZReader::new(&mut src, true);
    let res = r.try_start_next_stream();
    assert!(matches!(res, Ok(false)), "C05: Interrupted while probing for the next stream was not retried");
    kani::cover!(true, "end reached");
    core::mem::forget(r);
}
