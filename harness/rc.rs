//@@ {"inject":"src/enc/range_enc.rs","features":"encoder"}

use crate::range_dec::{RangeDecoder, RangeReader};
use crate::PROB_INIT;

const PROB_CHOICES: [u16; 4] = [31, 300, 1024, 2017];

// C01-A / C16-A: K bits with data-dependent adaptive probabilities go through the real encoder into a byte sink and
// through the real decoder back: same bits, same adapted probabilities, decoder consumed exactly what was produced.
fn rc_bits<const K: usize, const CAP: usize>(share_cells: bool) {
    let bits: [bool; K] = kani::any();
    let sel: [u8; K] = kani::any();
    let mut pe = [PROB_INIT; K];
    let mut i = 0;
    while i < K {
        kani::assume(sel[i] < 4);
        pe[i] = PROB_CHOICES[sel[i] as usize];
        i += 1;
    }
    let mut pd = pe;
    let mut enc = RangeEncoder::new(Sink::<CAP>::new());
    let mut carry = false;
    let mut ff_run = false;
    i = 0;
    while i < K {
        // with share_cells consecutive bit pairs use the same probability cell, so adaptation is mirrored too
        let cell = if share_cells { i / 2 * 2 } else { i };
        assert!(enc.encode_bit(&mut pe, cell, bits[i] as u32).is_ok());
        carry |= enc.low >= (1u64 << 32);
        ff_run |= enc.cache_size > 1;
        i += 1;
    }
    assert!(enc.finish().is_ok());
    let sink = enc.into_inner();
    assert!(sink.len >= 5 && sink.buf[0] == 0, "range coder output starts with a zero byte");
    let dec = RangeDecoder::new_stream(Src::<CAP>::new(sink.buf, sink.len));
    assert!(dec.is_ok());
    let mut dec = dec.unwrap();
    i = 0;
    while i < K {
        let cell = if share_cells { i / 2 * 2 } else { i };
        let b = dec.decode_bit(&mut pd[cell]);
        assert!(b == bits[i] as i32, "C01-A: decoded bit differs from encoded bit");
        i += 1;
    }
    i = 0;
    while i < K {
        assert!(pd[i] == pe[i], "C01-A: decoder probability state diverged from the encoder's");
        i += 1;
    }
    dec.normalize();
    assert!(dec.is_stream_finished(), "C16-A: range decoder not finished after the encoder's flush");
    assert!(dec.verif_inner().pos == sink.len, "C16-A: decoder consumed a different number of bytes than the encoder produced");
    kani::cover!(carry, "a carry propagated into emitted bytes");
    kani::cover!(ff_run, "a run of 0xFF bytes was pending");
    kani::cover!(true, "end reached");
}

//@ {"name":"c01a_rc_bits_k4","props":["C01","C16"],"obligation":"C01-A","timeout":900,"functions":["enc::range_enc::RangeEncoder::new","enc::range_enc::RangeEncoder::encode_bit","enc::range_enc::RangeEncoder::shift_low","enc::range_enc::RangeEncoder::finish","range_dec::RangeDecoder::new_stream","range_dec::RangeDecoder::decode_bit","range_dec::RangeDecoder::normalize","range_dec::RangeDecoder::is_stream_finished"],"bounds":"4 coded bits (symbolic), each with its own probability cell initialised from {31,300,1024,2017} by a symbolic selector; unwind 14","assumes":["probability cells start from one of four representative values (extremes, initial value, one skewed value)"]}
#[kani::proof]
#[kani::unwind(14)]
fn c01a_rc_bits_k4() { rc_bits::<4, 16>(false); }

//@ {"name":"c01a_rc_bits_k4_shared","props":["C01","C16"],"obligation":"C01-A","timeout":900,"functions":["enc::range_enc::RangeEncoder::encode_bit","enc::range_enc::RangeEncoder::shift_low","range_dec::RangeDecoder::decode_bit"],"bounds":"4 coded bits, two probability cells each used twice (adaptation mirrored); unwind 14","assumes":["probability cells start from one of four representative values"]}
#[kani::proof]
#[kani::unwind(14)]
fn c01a_rc_bits_k4_shared() { rc_bits::<4, 16>(true); }

//@ {"name":"c01a_rc_bits_k6","props":["C01","C16"],"tier":"thorough","obligation":"C01-A","timeout":3000,"mem_gb":9,"functions":["enc::range_enc::RangeEncoder::encode_bit","enc::range_enc::RangeEncoder::shift_low","enc::range_enc::RangeEncoder::finish","range_dec::RangeDecoder::decode_bit","range_dec::RangeDecoder::normalize"],"bounds":"6 coded bits, own probability cell each from {31,300,1024,2017}; unwind 16","assumes":["probability cells start from one of four representative values"]}
#[kani::proof]
#[kani::unwind(16)]
fn c01a_rc_bits_k6() { rc_bits::<6, 16>(false); }

// C01-A2: one encoder step / one decoder step from an arbitrary in-invariant state keeps the invariants that the
// other harnesses (and the asm twin check) assume.
//@ {"name":"c01a2_rc_step_invariants","props":["C01","C14"],"obligation":"C01-A2","timeout":600,"functions":["enc::range_enc::RangeEncoder::encode_bit","enc::range_enc::RangeEncoder::shift_low","range_dec::RangeDecoder::decode_bit","range_dec::RangeDecoder::normalize"],"bounds":"arbitrary encoder state (low < 2^32, range >= 2^24, cache_size 1..=3) and decoder state (range >= 2^16, code < range), prob any value in [31, 2017]; unwind 6","assumes":["state invariants as stated (they are re-established by the step: inductive)"]}
#[kani::proof]
#[kani::unwind(6)]
fn c01a2_rc_step_invariants() {
    let prob: u16 = kani::any();
    kani::assume(prob >= 31 && prob <= 2017);
    // encoder
    let mut enc = RangeEncoder::new(Sink::<8>::new());
    enc.low = kani::any();
    enc.range = kani::any();
    enc.cache_size = kani::any();
    enc.cache = kani::any();
    kani::assume(enc.low < (1u64 << 32) && enc.range >= (1 << 24) && enc.cache_size >= 1 && enc.cache_size <= 3);
    let bit: bool = kani::any();
    let mut pe = [prob];
    assert!(enc.encode_bit(&mut pe, 0, bit as u32).is_ok());
    assert!(pe[0] >= 31 && pe[0] <= 2017, "C01-A2: probability left [31, 2017]");
    assert!(enc.range >= (1 << 24), "C01-A2: encoder range not normalised");
    assert!(enc.low < (1u64 << 33));
    assert!(enc.cache_size >= 1);
    // decoder
    let range: u32 = kani::any();
    let code: u32 = kani::any();
    kani::assume(range >= (1 << 16) && code < range);
    let mut dec = RangeDecoder::verif_from_parts(Src::<2>::full(kani::any()), range, code);
    let mut pd = prob;
    let b = dec.decode_bit(&mut pd);
    assert!(b == 0 || b == 1);
    assert!(pd >= 31 && pd <= 2017, "C01-A2: decoder probability left [31, 2017]");
    assert!(dec.verif_range() >= (1 << 16), "C01-A2: decoder range below 2^16 (one normalisation no longer restores 2^24)");
    assert!(dec.verif_code() < dec.verif_range(), "C01-A2: code >= range after a decoding step");
    // the same for one direct bit (portable loop)
    let mut dec2 = RangeDecoder::verif_from_parts(Src::<2>::full(kani::any()), range, code);
    let _ = dec2.decode_direct_bits(1);
    // (a direct bit can legitimately leave code == range when the range was odd: no `code < range` claim here)
    assert!(dec2.verif_range() >= (1 << 16), "C01-A2: direct bit leaves range below 2^16");
    kani::cover!(b == 1 && bit, "one bits");
    kani::cover!(range < (1 << 24), "decoder normalised first");
}

// C01-B: bit-tree, reverse bit-tree and direct-bit coders mirror each other (fresh probabilities).
//@ {"name":"c01b_rc_bit_tree8","props":["C01","C16"],"obligation":"C01-B","timeout":900,"functions":["enc::range_enc::RangeEncoder::encode_bit_tree","range_dec::RangeDecoder::decode_bit_tree"],"bounds":"8-leaf tree (3 coded bits), symbol symbolic 0..8, fresh probabilities; unwind 12","assumes":["probabilities start at PROB_INIT"]}
#[kani::proof]
#[kani::unwind(12)]
fn c01b_rc_bit_tree8() {
    let sym: u32 = kani::any();
    kani::assume(sym < 8);
    let mut pe = [PROB_INIT; 8];
    let mut pd = pe;
    let mut enc = RangeEncoder::new(Sink::<12>::new());
    assert!(enc.encode_bit_tree(&mut pe, sym).is_ok());
    assert!(enc.finish().is_ok());
    let sink = enc.into_inner();
    let mut dec = RangeDecoder::new_stream(Src::<12>::new(sink.buf, sink.len)).unwrap();
    let got = dec.decode_bit_tree(&mut pd);
    assert!(got == sym as i32, "C01-B: bit tree symbol not mirrored");
    let j: usize = kani::any();
    kani::assume(j < 8);
    assert!(pd[j] == pe[j], "C01-B: bit tree probabilities diverged");
    dec.normalize();
    assert!(dec.is_stream_finished() && dec.verif_inner().pos == sink.len);
    kani::cover!(sym == 7, "all-ones symbol");
}

//@ {"name":"c01b_rc_reverse_tree16","props":["C01","C16"],"obligation":"C01-B","timeout":900,"functions":["enc::range_enc::RangeEncoder::encode_reverse_bit_tree","range_dec::RangeDecoder::decode_reverse_bit_tree"],"bounds":"16-leaf reverse tree (dist_align, 4 coded bits), symbol symbolic 0..16, fresh probabilities; unwind 12","assumes":["probabilities start at PROB_INIT"]}
#[kani::proof]
#[kani::unwind(12)]
fn c01b_rc_reverse_tree16() {
    let sym: u32 = kani::any();
    kani::assume(sym < 16);
    let mut pe = [PROB_INIT; 16];
    let mut pd = pe;
    let mut enc = RangeEncoder::new(Sink::<12>::new());
    assert!(enc.encode_reverse_bit_tree(&mut pe, sym).is_ok());
    assert!(enc.finish().is_ok());
    let sink = enc.into_inner();
    let mut dec = RangeDecoder::new_stream(Src::<12>::new(sink.buf, sink.len)).unwrap();
    let got = dec.decode_reverse_bit_tree(&mut pd);
    assert!(got == sym as i32, "C01-B: reverse bit tree symbol not mirrored");
    let j: usize = kani::any();
    kani::assume(j < 16);
    assert!(pd[j] == pe[j], "C01-B: reverse bit tree probabilities diverged");
    dec.normalize();
    assert!(dec.is_stream_finished() && dec.verif_inner().pos == sink.len);
    kani::cover!(sym == 5, "mixed bits");
}

fn direct_bits<const CAP: usize>(maxcount: u32) {
    let count: u32 = kani::any();
    kani::assume(count >= 1 && count <= maxcount);
    let value: u32 = kani::any();
    kani::assume(value < (1 << count));
    let mut enc = RangeEncoder::new(Sink::<CAP>::new());
    // one modelled bit first so that the range is not at its initial value
    let mut p = [PROB_INIT];
    let lead: bool = kani::any();
    assert!(enc.encode_bit(&mut p, 0, lead as u32).is_ok());
    assert!(enc.encode_direct_bits(value, count).is_ok());
    assert!(enc.finish().is_ok());
    let sink = enc.into_inner();
    let mut dec = RangeDecoder::new_stream(Src::<CAP>::new(sink.buf, sink.len)).unwrap();
    let mut q = PROB_INIT;
    assert!(dec.decode_bit(&mut q) == lead as i32);
    let got = dec.decode_direct_bits(count);
    assert!(got as u32 == value, "C01-B: direct bits not mirrored");
    dec.normalize();
    assert!(dec.is_stream_finished() && dec.verif_inner().pos == sink.len, "C16-A: direct bits: consumed != produced");
    kani::cover!(count == maxcount && value == (1 << count) - 1, "longest run, all ones");
}

//@ {"name":"c01b_rc_direct_bits_6","props":["C01","C16"],"obligation":"C01-B","timeout":900,"functions":["enc::range_enc::RangeEncoder::encode_direct_bits","range_dec::RangeDecoder::decode_direct_bits (portable path)"],"bounds":"count 1..=6 symbolic, value any count-bit number, preceded by one modelled bit; unwind 14","assumes":[]}
#[kani::proof]
#[kani::unwind(14)]
fn c01b_rc_direct_bits_6() { direct_bits::<16>(6); }

//@ {"name":"c01b_rc_direct_bits_12","props":["C01","C16"],"tier":"thorough","obligation":"C01-B","timeout":3000,"mem_gb":9,"functions":["enc::range_enc::RangeEncoder::encode_direct_bits","range_dec::RangeDecoder::decode_direct_bits (portable path)"],"bounds":"count 1..=12 symbolic, value any count-bit number; unwind 20","assumes":[]}
#[kani::proof]
#[kani::unwind(20)]
fn c01b_rc_direct_bits_12() { direct_bits::<16>(12); }

// C05-A (kernel): the stream range decoder on a source that ends early: new_stream reports the truncation.
//@ {"name":"c05a_rc_init_truncated","props":["C05","C06"],"obligation":"C05-A","timeout":600,"functions":["range_dec::RangeDecoder::new_stream"],"bounds":"any 5 bytes, source length 0..=5 symbolic; unwind 8","assumes":[]}
#[kani::proof]
#[kani::unwind(8)]
fn c05a_rc_init_truncated() {
    let src = Src::<5>::any();
    let len = src.len;
    let first = src.buf[0];
    let r = RangeDecoder::new_stream(src);
    if len < 5 {
        assert!(r.is_err() , "C05-A: truncated range coder header accepted");
    } else {
        assert!(r.is_ok() == (first == 0));
    }
    kani::cover!(len == 4, "one byte short");
    kani::cover!(len == 5 && first != 0, "non-zero first byte rejected");
}
