//@@ {"inject":"src/filter/bcj2/decode.rs","features":"encoder"}

// C06-H: BCJ2 decoder core on hostile four-stream input: never a panic / out-of-bounds index, the output cursor stays
// inside the destination and every stream cursor stays inside its window - also when decode() is resumed.
//@ {"name":"c06h_bcj2_decode_total","props":["C06","C11"],"obligation":"C06-H","timeout":2400,"mem_gb":9,"functions":["filter::bcj2::decode::Bcj2Decoder::new","filter::bcj2::decode::Bcj2Decoder::decode"],"bounds":"four stream windows of 6 arbitrary bytes each (24-byte source), window limits symbolic 0..=6; destination 6 bytes; decode() called twice (resume) with the destination re-armed; instruction pointer < 2^31; unwind 10","assumes":["ip < 2^31 (the u32 instruction pointer only overflows after 4 GiB of output)"]}
#[kani::proof]
#[kani::unwind(10)]
fn c06h_bcj2_decode_total() {
    const W: usize = 6;
    let mut src: [u8; 4 * W] = kani::any();
    let mut d = Bcj2Decoder::new();
    let mut i = 0;
    while i < BCJ2_NUM_STREAMS {
        let avail: usize = kani::any();
        kani::assume(avail <= W);
        if bcj2_is_32bit_stream(i) {
            kani::assume(avail % 4 == 0); // BCJ2Reader only exposes whole 32-bit words of the CALL/JUMP streams
        }
        d.bufs[i] = i * W;
        d.lims[i] = i * W + avail;
        i += 1;
    }
    d.ip = kani::any();
    kani::assume(d.ip < (1 << 31));
    let mut dest = [0u8; W];
    let dl: usize = kani::any();
    kani::assume(dl >= 1 && dl <= W);
    d.set_dest(0);
    let ok1 = d.decode(&mut src, &mut dest[..dl]);
    assert!(d.dest() <= dl, "C06-H: output cursor beyond the destination");
    let mut k = 0;
    while k < BCJ2_NUM_STREAMS {
        assert!(d.bufs[k] <= d.lims[k] && d.lims[k] <= (k + 1) * W, "C06-H: stream cursor beyond its window");
        k += 1;
    }
    if ok1 {
        d.set_dest(0);
        let ok2 = d.decode(&mut src, &mut dest[..dl]);
        assert!(d.dest() <= dl);
        k = 0;
        while k < BCJ2_NUM_STREAMS {
            assert!(d.bufs[k] <= d.lims[k], "C06-H: stream cursor beyond its window after resume");
            k += 1;
        }
        kani::cover!(ok2 && d.dest() > 0, "second call produced output");
    }
    kani::cover!(!ok1, "decode error reported");
    kani::cover!(ok1 && d.dest() == dl, "destination filled");
}
