//@@ {"inject":"src/filter/bcj2/decode.rs","features":"encoder"}

// C06-H: BCJ2 decoder core on hostile four-stream input: never a panic / out-of-bounds index, the output cursor stays
// inside the destination and every stream cursor stays inside its window - also when decode() is resumed.
//@ {"name":"c06h_bcj2_decode_total","props":["C06","C11"],"tier":"thorough","obligation":"C06-H","timeout":5400,"mem_gb":22,"functions":["filter::bcj2::decode::Bcj2Decoder::new","filter::bcj2::decode::Bcj2Decoder::decode"],"bounds":"four stream windows of 6 arbitrary bytes each (24-byte source), window limits symbolic 0..=6; destination 6 bytes; decode() called twice (resume) with the destination re-armed; instruction pointer < 2^31; unwind 10","assumes":["ip < 2^31 (the u32 instruction pointer only overflows after 4 GiB of output)"]}
#[kani::proof]
#[kani::unwind(10)]
fn c06h_bcj2_decode_total() {
    const W: usize = 6;
    let mut src: [u8; 4 * W] = kani::any();
    let mut d = Bcj2Decoder::new();
    let mut i = 0;
    while i < BCJ2_NUM_STREAMS {
        let avail: usize = kani::any();
        kani::assume(avail <= W);
        if bcj2_is_32bit_stream(i) {
            kani::assume(avail % 4 == 0); // BCJ2Reader only exposes whole 32-bit words of the CALL/JUMP streams
        }
        d.bufs[i] = i * W;
        d.lims[i] = i * W + avail;
        i += 1;
    }
    d.ip = kani::any();
    kani::assume(d.ip < (1 << 31));
    let mut dest = [0u8; W];
    let dl: usize = kani::any();
    kani::assume(dl >= 1 && dl <= W);
    d.set_dest(0);
    let ok1 = d.decode(&mut src, &mut dest[..dl]);
    assert!(d.dest() <= dl, "C06-H: output cursor beyond the destination");
    let mut k = 0;
    while k < BCJ2_NUM_STREAMS {
        assert!(d.bufs[k] <= d.lims[k] && d.lims[k] <= (k + 1) * W, "C06-H: stream cursor beyond its window");
        k += 1;
    }
    if ok1 {
        d.set_dest(0);
        let ok2 = d.decode(&mut src, &mut dest[..dl]);
        assert!(d.dest() <= dl);
        k = 0;
        while k < BCJ2_NUM_STREAMS {
            assert!(d.bufs[k] <= d.lims[k], "C06-H: stream cursor beyond its window after resume");
            k += 1;
        }
        kani::cover!(ok2 && d.dest() > 0, "second call produced output");
    }
    kani::cover!(!ok1, "decode error reported");
    kani::cover!(ok1 && d.dest() == dl, "destination filled");
}

// C11 (BCJ2, operand conversion): a CALL operand is stored big endian as an absolute address; the decoder must deliver
// the little-endian relative value  be32(src) - (ip + 4)  - all four bytes of it, also when the destination buffer
// ends in the middle of (or exactly behind) the operand and the rest is delivered by the next call.
//@ {"name":"c11_bcj2_operand_conversion","props":["C11","C06"],"tier":"thorough","obligation":"C06-H","timeout":3600,"mem_gb":9,"functions":["filter::bcj2::decode::Bcj2Decoder::decode"],"bounds":"decoder resuming in the CALL-operand state (last opcode byte 0xE8) with one arbitrary 4-byte operand in the CALL window, MAIN window empty; instruction pointer any value < 2^31; first destination 0..=6 bytes (symbolic), second destination 8 bytes; unwind 10","assumes":["pre-state = what decode() leaves when it asked for more CALL-stream data (state == BCJ2_STREAM_CALL, range/code normalised)","ip < 2^31"]}
#[kani::proof]
#[kani::unwind(10)]
fn c11_bcj2_operand_conversion() {
    let op: [u8; 4] = kani::any();
    let mut src = [0u8; 16];
    src[4] = op[0]; src[5] = op[1]; src[6] = op[2]; src[7] = op[3];
    let mut d = Bcj2Decoder::new();
    // windows: MAIN = [0,0) (empty), CALL = [4,8), JUMP = [8,8), RC = [12,12)
    d.bufs = [0, 4, 8, 12];
    d.lims = [0, 8, 8, 12];
    d.state = BCJ2_STREAM_CALL;
    d.temp = [0, 0, 0, 0xE8];
    d.range = kani::any();
    d.code = kani::any();
    kani::assume(d.range >= K_TOP_VALUE);
    d.ip = kani::any();
    kani::assume(d.ip < (1 << 31));
    let ip0 = d.ip;
    let want = u32::from_be_bytes(op).wrapping_sub(ip0.wrapping_add(4)).to_le_bytes();
    let room: usize = kani::any();
    kani::assume(room <= 6);
    let mut out1 = [0xAAu8; 6];
    d.set_dest(0);
    assert!(d.decode(&mut src, &mut out1[..room]));
    let n1 = d.dest();
    assert!(n1 == core::cmp::min(room, 4), "C11: operand bytes delivered != min(room, 4)");
    let mut out2 = [0x55u8; 8];
    d.set_dest(0);
    assert!(d.decode(&mut src, &mut out2));
    let n2 = d.dest();
    assert!(n1 + n2 == 4, "C11: a converted operand must be delivered as exactly four bytes");
    let i: usize = kani::any();
    kani::assume(i < 4);
    let got = if i < n1 { out1[i] } else { out2[i - n1] };
    assert!(got == want[i], "C11: BCJ2 operand byte differs from be32(src) - (ip + 4), little endian");
    kani::cover!(room == 4, "destination ends exactly behind the operand");
    kani::cover!(room == 2, "operand split across two calls");
    kani::cover!(room == 6, "operand fits with room to spare");
}
