//@@ {"inject":"src/lz/lz_decoder.rs","features":"encoder"}

const RING: usize = 16;

// Representation invariant of LZDecoder between two symbols of a real decode (established by new/reset/set_limit and
// preserved by put_byte/repeat/flush; see DESIGN.md Appendix A for why each conjunct holds in every real history):
fn inv(d: &LZDecoder) -> bool {
    d.buf.len() == d.buf_size
        && d.buf_size >= 1
        && d.start <= d.pos
        && d.pos <= d.limit
        && d.limit <= d.buf_size
        && d.pos <= d.full
        && d.full <= d.buf_size
        && (d.full == d.buf_size || d.pos == d.full)
}

fn any_dict() -> (LZDecoder, [u8; RING]) {
    let content: [u8; RING] = kani::any();
    let d = LZDecoder {
        buf: content.to_vec(),
        buf_size: RING,
        start: kani::any(),
        pos: kani::any(),
        full: kani::any(),
        limit: kani::any(),
        pending_len: 0,
        pending_dist: 0,
    };
    kani::assume(inv(&d));
    (d, content)
}

// logical byte at distance `dist` (0 = most recent) in the ring before the operation
fn ring_back(content: &[u8; RING], pos: usize, dist: usize) -> u8 {
    content[(pos + RING - 1 - dist) % RING]
}

// C01-G / C04-E / C06: repeat(dist,len) from any valid state: Err iff the distance reaches beyond the filled
// dictionary; otherwise exactly min(len, limit-pos) bytes are produced, each equal to the byte `dist+1` positions
// before it (the LZ77 copy semantics, overlapping allowed), the rest is left pending, the invariant is kept.
//@ {"name":"c01g_lzdict_repeat_step","props":["C01","C06","C04","C07"],"obligation":"C01-G","timeout":1500,"mem_gb":9,"functions":["lz::lz_decoder::LZDecoder::repeat"],"bounds":"16-byte ring buffer with arbitrary content; any start/pos/full/limit satisfying the invariant with pos < limit; dist any usize; len 1..=273; unwind 20","assumes":["representation invariant inv() (DESIGN.md Appendix A)","pos < limit (decode() only calls repeat under has_space())"]}
#[kani::proof]
#[kani::unwind(20)]
fn c01g_lzdict_repeat_step() {
    let (mut d, content) = any_dict();
    kani::assume(d.pos < d.limit);
    let dist: usize = kani::any();
    let len: usize = kani::any();
    kani::assume(len >= 1 && len <= 273);
    let (pos0, full0, limit0) = (d.pos, d.full, d.limit);
    let r = d.repeat(dist, len);
    if dist >= full0 {
        assert!(r.is_err(), "C04-E: distance beyond the filled dictionary accepted");
        assert!(d.pos == pos0);
    } else {
        assert!(r.is_ok(), "C01-G: valid distance refused");
        let n = core::cmp::min(len, limit0 - pos0);
        assert!(d.pos == pos0 + n, "C01-G: repeat produced a wrong number of bytes");
        assert!(d.pending_len == len - n && (d.pending_len == 0 || d.pending_dist == dist));
        assert!(inv(&d), "C01-G: invariant broken by repeat");
        // every produced byte equals the byte dist+1 before it
        let i: usize = kani::any();
        kani::assume(i < n);
        let want = if i <= dist { ring_back(&content, pos0, dist - i) } else { d.buf[pos0 + i - dist - 1] };
        assert!(d.buf[pos0 + i] == want, "C01-G: repeated byte differs from the LZ77 copy semantics");
        kani::cover!(pos0 < dist + 1 && n > RING - (RING + pos0 - dist - 1), "copy wrapped around the ring end");
        kani::cover!(dist < n, "overlapping copy");
        kani::cover!(d.pending_len > 0, "match cut by the limit");
    }
    kani::cover!(r.is_err(), "distance error path");
    core::mem::forget(d);
}

// C07-D: a match that is cut by the output limit and completed by repeat_pending after the limit moved gives the same
// bytes as the uncut match.
//@ {"name":"c07d_lzdict_limit_split","props":["C07","C01"],"tier":"thorough","obligation":"C07-D","timeout":3600,"mem_gb":9,"functions":["lz::lz_decoder::LZDecoder::repeat","lz::lz_decoder::LZDecoder::repeat_pending","lz::lz_decoder::LZDecoder::set_limit"],"bounds":"16-byte ring, arbitrary content, pos..limit split at any point, len 2..=4, any valid dist; unwind 20","assumes":["representation invariant inv()","full == buf_size or no wrap (same invariant)"]}
#[kani::proof]
#[kani::unwind(20)]
fn c07d_lzdict_limit_split() {
    let (mut a, content) = any_dict();
    kani::assume(a.pos < a.limit);
    let dist: usize = kani::any();
    let len: usize = kani::any();
    kani::assume(len >= 2 && len <= 4 && dist < a.full);
    kani::assume(a.pos + len <= RING);
    let mut b = LZDecoder { buf: content.to_vec(), buf_size: RING, start: a.start, pos: a.pos, full: a.full, limit: a.pos + len, pending_len: 0, pending_dist: 0 };
    let pos0 = a.pos;
    // a: cut at its own (symbolic) limit, then the limit is raised and the rest is replayed
    assert!(a.repeat(dist, len).is_ok());
    a.limit = pos0 + len;
    assert!(a.repeat_pending().is_ok());
    // b: one shot
    assert!(b.repeat(dist, len).is_ok());
    assert!(a.pos == b.pos && a.pos == pos0 + len && a.full == b.full);
    assert!(a.pending_len == 0 && b.pending_len == 0);
    let i: usize = kani::any();
    kani::assume(i < RING);
    assert!(a.buf[i] == b.buf[i], "C07-D: bytes depend on where the output limit cut the match");
    kani::cover!(true, "end reached");
    core::mem::forget(a);
    core::mem::forget(b);
}

// C01-G: literals: put_byte then get_byte(0) returns it, keeps the invariant; get_byte(dist) for dist < full reads
// the byte `dist+1` positions back.
//@ {"name":"c01g_lzdict_put_get","props":["C01","C06"],"obligation":"C01-G","timeout":900,"functions":["lz::lz_decoder::LZDecoder::put_byte","lz::lz_decoder::LZDecoder::get_byte","lz::lz_decoder::LZDecoder::has_space"],"bounds":"16-byte ring, arbitrary content and state under the invariant, pos < limit; dist any value < full","assumes":["representation invariant inv()"]}
#[kani::proof]
#[kani::unwind(20)]
fn c01g_lzdict_put_get() {
    let (mut d, content) = any_dict();
    kani::assume(d.has_space());
    let b: u8 = kani::any();
    let pos0 = d.pos;
    let full0 = d.full;
    let dist: usize = kani::any();
    kani::assume(dist < full0);
    let before = d.get_byte(dist);
    assert!(before == ring_back(&content, pos0, dist), "C01-G: get_byte reads the wrong ring position");
    d.put_byte(b);
    assert!(d.pos == pos0 + 1 && inv_after_put(&d));
    assert!(d.get_byte(0) == b);
    kani::cover!(dist >= pos0, "distance wraps around the ring");
    core::mem::forget(d);
}

fn inv_after_put(d: &LZDecoder) -> bool {
    d.start <= d.pos && d.pos <= d.limit && d.limit <= d.buf_size && d.pos <= d.full && d.full <= d.buf_size
}

// C01-G / C07: flush hands out exactly the bytes produced since the last flush and wraps the position.
//@ {"name":"c01g_lzdict_flush","props":["C01","C07"],"obligation":"C01-G","timeout":900,"functions":["lz::lz_decoder::LZDecoder::flush","lz::lz_decoder::LZDecoder::set_limit"],"bounds":"16-byte ring, arbitrary content/state under the invariant; output buffer 32 bytes with symbolic offset; unwind 20","assumes":["representation invariant inv()","out has room for pos-start bytes at the offset (readers pass off + copy_size <= buf.len())"]}
#[kani::proof]
#[kani::unwind(20)]
fn c01g_lzdict_flush() {
    let (mut d, content) = any_dict();
    let mut out = [0u8; 32];
    let off: usize = kani::any();
    kani::assume(off <= 16);
    let (start0, pos0) = (d.start, d.pos);
    let n = d.flush(&mut out, off);
    assert!(n == pos0 - start0);
    kani::cover!(pos0 == RING, "wrap at the end of the ring");
    kani::cover!(n == 0, "nothing to flush");
    let i: usize = kani::any();
    kani::assume(i < n);
    assert!(out[off + i] == content[start0 + i], "C01-G: flush copied the wrong bytes");
    assert!(d.start == d.pos);
    assert!(d.pos == if pos0 == RING { 0 } else { pos0 });
    // the next set_limit never exceeds the buffer
    let want: usize = kani::any();
    kani::assume(want <= 1 << 20);
    d.set_limit(want);
    assert!(d.limit <= d.buf_size && d.limit >= d.pos);
    core::mem::forget(d);
}

// C06 / C02: LZDecoder::new with a preset dictionary of any length keeps the last dict_size bytes.
//@ {"name":"c01g_lzdict_new_preset","props":["C01","C06"],"obligation":"C01-G","timeout":900,"functions":["lz::lz_decoder::LZDecoder::new","lz::lz_decoder::LZDecoder::reset"],"bounds":"dict_size 1..=16, preset length 0..=24 (both symbolic), arbitrary preset bytes; unwind 26","assumes":[]}
#[kani::proof]
#[kani::unwind(26)]
fn c01g_lzdict_new_preset() {
    let ds: usize = kani::any();
    kani::assume(ds >= 1 && ds <= 16);
    let preset: [u8; 24] = kani::any();
    let pl: usize = kani::any();
    kani::assume(pl <= 24);
    let use_preset: bool = kani::any();
    let mut d = LZDecoder::new(ds, if use_preset { Some(&preset[..pl]) } else { None });
    assert!(d.buf_size == ds && d.buf.len() == ds);
    if use_preset {
        let keep = core::cmp::min(pl, ds);
        assert!(d.pos == keep && d.full == keep && d.start == keep);
        let i: usize = kani::any();
        kani::assume(i < keep);
        assert!(d.buf[i] == preset[pl - keep + i], "preset dictionary tail not kept");
    } else {
        assert!(d.pos == 0 && d.full == 0 && d.start == 0);
    }
    d.reset();
    assert!(d.pos == 0 && d.full == 0 && d.start == 0 && d.limit == 0);
    kani::cover!(use_preset && pl > ds, "preset longer than the dictionary");
    core::mem::forget(d);
}

// C06 / C05-B: copy_uncompressed never writes outside the ring and reports a short source.
//@ {"name":"c01g_lzdict_copy_uncompressed","props":["C01","C05","C06"],"obligation":"C01-G","timeout":900,"functions":["lz::lz_decoder::LZDecoder::copy_uncompressed"],"bounds":"16-byte ring under the invariant; len any usize; source of 0..=8 bytes; unwind 20","assumes":["representation invariant inv()"]}
#[kani::proof]
#[kani::unwind(20)]
fn c01g_lzdict_copy_uncompressed() {
    let (mut d, content) = any_dict();
    let len: usize = kani::any();
    let mut src = Src::<8>::any();
    let avail = src.len;
    let pos0 = d.pos;
    let r = d.copy_uncompressed(&mut src, len);
    let want = core::cmp::min(RING - pos0, len);
    if want <= avail {
        assert!(r.is_ok());
        assert!(d.pos == pos0 + want && d.full >= d.pos && d.pos <= RING);
        assert!(src.pos == want);
    } else {
        assert!(r.is_err(), "C05-B: short source accepted by copy_uncompressed");
    }
    kani::cover!(want == 8 && avail == 8, "eight bytes copied");
    kani::cover!(want > avail, "short source");
    core::mem::forget(d);
}
