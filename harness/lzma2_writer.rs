//@@ {"inject":"src/enc/lzma2_writer.rs","features":"encoder","needs":["stubs_enc","stubs_enc_normal","stubs_dec"],"stubbing":true,"stubs":["LZMAEncoder::new replaced by verif_cheap_encoder"]}

use crate::{EncodeMode, MFType};

fn w_opts(preset: Option<Vec<u8>>, chunk: Option<NonZeroU64>) -> LZMA2Options {
    let mut lo = LZMAOptions::new(4096, 0, 0, 0, EncodeMode::Fast, 32, MFType::HC4, 4);
    lo.preset_dict = preset;
    LZMA2Options { lzma_options: lo, chunk_size: chunk }
}

// C01-E (writer half) / C03-C: the LZMA chunk header the real writer emits, for every size pair and every flag state,
// equals the reference layout (control byte table, sizes minus one big endian, props byte only when needed); the
// reader half is checked against the same layout in c06a_lzma2_chunk_header_any12.
//@ {"name":"c01e_lzma2_writer_header","props":["C01","C03","C16"],"obligation":"C01-E","timeout":1500,"mem_gb":9,"functions":["enc::lzma2_writer::LZMA2Writer::new","enc::lzma2_writer::LZMA2Writer::write_lzma","enc::range_enc::RangeEncoder::write_to"],"bounds":"uncompressed size any value in 1..=2^21, compressed size any value in 1..=2^16; props_needed / dict_reset_needed / state_reset_needed / force_independent_chunk symbolic; dict 4096, lc=lp=pb=0; unwind 10","assumes":["range coder buffer empty (header only)","force_independent_chunk implies props_needed (start_independent_chunk sets both)"]}
#[kani::proof]
#[kani::unwind(10)]
#[kani::stub(crate::enc::encoder::LZMAEncoder::new, crate::enc::encoder::verif_stubs_enc::verif_cheap_encoder)]
fn c01e_lzma2_writer_header() {
    // the sink lives outside the writer: LZMA2Writer embeds ~40 KB of coder tables by value, and a write at a symbolic
    // offset into a sink stored INSIDE that struct is a byte-update of the whole struct for CBMC (measured: 9 GB OOM)
    let mut sink = Sink::<16>::new();
    let mut w = LZMA2Writer::new(&mut sink, w_opts(None, None));
    assert!(w.dict_reset_needed && w.state_reset_needed && w.props_needed, "first chunk must reset everything");
    let fresh: bool = kani::any();
    if !fresh {
        w.dict_reset_needed = kani::any();
        w.state_reset_needed = kani::any();
        w.props_needed = kani::any();
        w.force_independent_chunk = kani::any();
        kani::assume(!w.force_independent_chunk || w.props_needed);
        kani::assume(!w.dict_reset_needed || w.props_needed || true);
    }
    let (dr, sr, pn, fi) = (w.dict_reset_needed, w.state_reset_needed, w.props_needed, w.force_independent_chunk);
    let (un, co): (u32, u32) = (kani::any(), kani::any());
    kani::assume(un >= 1 && un <= (1 << 21) && co >= 1 && co <= (1 << 16));
    assert!(w.write_lzma(un, co).is_ok());
    let s: &Sink<16> = &*w.inner;
    let hl = if pn { 6 } else { 5 };
    assert!(s.len == hl, "C16-B: header length");
    let level = if pn || fi { if dr || fi { 3 } else { 2 } } else if sr { 1 } else { 0 };
    assert!(s.buf[0] as u32 == 0x80 + (level << 5) + ((un - 1) >> 16), "C03-C: control byte");
    assert!(((s.buf[1] as u32) << 8 | s.buf[2] as u32) == ((un - 1) & 0xFFFF), "C01-E: uncompressed size field");
    assert!(((s.buf[3] as u32) << 8 | s.buf[4] as u32) == co - 1, "C01-E: compressed size field");
    if pn {
        assert!(s.buf[5] == 0, "props byte for lc=lp=pb=0");
    }
    // a chunk that needs a dictionary reset must say so (the reader refuses anything else as first chunk)
    if dr {
        assert!(level == 3 || !pn, "C01-E: dictionary reset requested but control byte does not reset the dictionary");
    }
    assert!(!w.props_needed && !w.state_reset_needed && !w.dict_reset_needed && !w.force_independent_chunk);
    kani::cover!(fresh, "first chunk of a stream");
    kani::cover!(level == 0, "no reset chunk");
    kani::cover!(un == (1 << 21) && co == (1 << 16), "both limits");
    core::mem::forget(w);
}

// C01-E / C19-C: the flags the two real constructors start with agree: the writer's first chunk always carries what the
// reader requires of a first chunk (dictionary reset unless a NON-EMPTY preset dictionary is in use on both sides).
fn preset_dict_flags(kind: u8) {
    // concrete preset bytes (symbolic ones are hashed into the real match-finder tables: 9 GB OOM)
    let bytes: [u8; 3] = [1, 2, 3];
    let preset: Option<Vec<u8>> = match kind { 0 => None, 1 => Some(Vec::new()), _ => Some(bytes.to_vec()) };
    let mut sink = Sink::<8>::new();
    let w = LZMA2Writer::new(&mut sink, w_opts(preset.clone(), None));
    let r = crate::LZMA2Reader::new(Src::<1>::full([0]), 4096, preset.as_deref());
    // reader.need_dict_reset is private to its module: observe it through its public behaviour instead:
    // a first chunk with control 0x02 / 0x80..0xDF is refused iff the reader needs a dictionary reset.
    let writer_resets = w.dict_reset_needed;
    let reader_needs = crate::lzma2_reader::verif_need_dict_reset(&r);
    assert!(!reader_needs || writer_resets, "C19-C: reader demands a dictionary reset in the first chunk but the writer will not emit one");
    kani::cover!(true, "end reached");
    core::mem::forget(w);
    core::mem::forget(r);
}

//@ {"name":"c19c_lzma2_preset_dict_flags_none","props":["C19","C01"],"obligation":"C19-C","timeout":1500,"mem_gb":9,"functions":["enc::lzma2_writer::LZMA2Writer::new","lzma2_reader::LZMA2Reader::new","lz::lz_encoder::LZEncoderData::set_preset_dict"],"bounds":"no preset dictionary on both sides (concrete: a symbolic choice merges three constructor states - 9 GB OOM); dict 4096; unwind 10","assumes":[],"no_inputs":true}
#[kani::proof]
#[kani::unwind(10)]
#[kani::stub(crate::enc::encoder::LZMAEncoder::new, crate::enc::encoder::verif_stubs_enc::verif_cheap_encoder)]
fn c19c_lzma2_preset_dict_flags_none() { preset_dict_flags(0); }

//@ {"name":"c19c_lzma2_preset_dict_flags_empty","props":["C19","C01"],"obligation":"C19-C","timeout":1500,"mem_gb":9,"functions":["enc::lzma2_writer::LZMA2Writer::new","lzma2_reader::LZMA2Reader::new","lz::lz_encoder::LZEncoderData::set_preset_dict"],"bounds":"EMPTY preset dictionary (Some(&[])) on both sides (concrete: a symbolic choice merges three constructor states - 9 GB OOM); dict 4096; unwind 10","assumes":[],"no_inputs":true}
#[kani::proof]
#[kani::unwind(10)]
#[kani::stub(crate::enc::encoder::LZMAEncoder::new, crate::enc::encoder::verif_stubs_enc::verif_cheap_encoder)]
fn c19c_lzma2_preset_dict_flags_empty() { preset_dict_flags(1); }

//@ {"name":"c19c_lzma2_preset_dict_flags_real","props":["C19","C01"],"obligation":"C19-C","timeout":1500,"mem_gb":9,"functions":["enc::lzma2_writer::LZMA2Writer::new","lzma2_reader::LZMA2Reader::new","lz::lz_encoder::LZEncoderData::set_preset_dict"],"bounds":"3-byte preset dictionary on both sides (concrete: a symbolic choice merges three constructor states - 9 GB OOM); dict 4096; unwind 10","assumes":[],"no_inputs":true}
#[kani::proof]
#[kani::unwind(10)]
#[kani::stub(crate::enc::encoder::LZMAEncoder::new, crate::enc::encoder::verif_stubs_enc::verif_cheap_encoder)]
fn c19c_lzma2_preset_dict_flags_real() { preset_dict_flags(2); }

// C18 (LZMA2 part): chunk size option is raised to the dictionary size for every value.
//@ {"name":"c18_lzma2_chunk_size_clamp","props":["C18","C19"],"obligation":"C18-A","timeout":900,"mem_gb":9,"functions":["enc::lzma2_writer::LZMA2Writer::new"],"bounds":"chunk_size any non-zero u64; dict 4096","assumes":[]}
#[kani::proof]
#[kani::unwind(10)]
#[kani::stub(crate::enc::encoder::LZMAEncoder::new, crate::enc::encoder::verif_stubs_enc::verif_cheap_encoder)]
fn c18_lzma2_chunk_size_clamp() {
    let cs: u64 = kani::any();
    kani::assume(cs != 0);
    let mut sink = Sink::<8>::new();
    let w = LZMA2Writer::new(&mut sink, w_opts(None, NonZeroU64::new(cs)));
    assert!(w.chunk_size == Some(core::cmp::max(cs, 4096)));
    kani::cover!(cs < 4096, "raised to the dictionary size");
    core::mem::forget(w);
}

// C01-E: a stored (uncompressed) chunk: header layout, exactly the pending bytes are copied from the window, and the
// flags afterwards demand a state reset from the next LZMA chunk (write_chunk has reset the encoder state before
// storing, so a following chunk without state reset would be decoded with stale probabilities).
//@ {"name":"c01e_lzma2_writer_raw_chunk","props":["C01","C03","C07"],"obligation":"C01-E","timeout":1500,"mem_gb":9,"functions":["enc::lzma2_writer::LZMA2Writer::write_uncompressed","lz::lz_encoder::LZEncoderData::copy_uncompressed"],"bounds":"5 pending bytes (arbitrary content) in the window; dict_reset_needed / state_reset_needed symbolic; unwind 10","assumes":["window state as after encoding n bytes: read_pos = n-1, write_pos = n"]}
#[kani::proof]
#[kani::unwind(10)]
#[kani::stub(crate::enc::encoder::LZMAEncoder::new, crate::enc::encoder::verif_stubs_enc::verif_cheap_encoder)]
fn c01e_lzma2_writer_raw_chunk() {
    let mut sink = Sink::<16>::new();
    let mut w = LZMA2Writer::new(&mut sink, w_opts(None, None));
    // the byte count is concrete: a symbolic-length copy out of the (270 KB) window is a whole-array operation in CBMC
    let n: usize = 5;
    let data: [u8; 6] = kani::any();
    let mut i = 0;
    while i < 6 {
        w.lzma.lz.data.buf[i] = data[i];
        i += 1;
    }
    w.lzma.lz.data.read_pos = n as i32 - 1;
    w.lzma.lz.data.write_pos = n as i32;
    w.dict_reset_needed = kani::any();
    w.state_reset_needed = kani::any();
    let dr = w.dict_reset_needed;
    assert!(w.write_uncompressed(n as u32).is_ok());
    let s: &Sink<16> = &*w.inner;
    assert!(s.len == 3 + n, "C16-B: stored chunk = 3 header bytes + payload");
    assert!(s.buf[0] == if dr { 1 } else { 2 }, "C03-C: stored chunk control byte");
    assert!(s.buf[1] == 0 && s.buf[2] as usize == n - 1, "C01-E: stored chunk size field is size - 1");
    let j: usize = kani::any();
    kani::assume(j < n);
    assert!(s.buf[3 + j] == data[j], "C01-E: stored chunk payload differs from the window bytes");
    assert!(!w.dict_reset_needed);
    assert!(w.state_reset_needed, "C01-E: after a stored chunk the next LZMA chunk must reset the coder state");
    kani::cover!(dr, "first chunk of the stream is stored");
    core::mem::forget(w);
}
