//@@ {"inject":"src/no_std.rs","features":"encoder"}

// C05-E / C14-E: the crate's stand-in for std::io::Read::read_exact over a source that delivers short reads, reports
// Interrupted once, or ends early: the buffer is filled exactly (in order) or the call fails with EOF; Interrupted is
// retried; any other error is passed through.
//@ {"name":"c05e_nostd_read_exact_contract","props":["C05","C14"],"obligation":"C05-E","timeout":900,"functions":["no_std::default_read_exact","no_std::Read::read_exact"],"bounds":"source of 0..=6 arbitrary bytes; per-call chunk 1..=6 (symbolic); one Interrupted at a symbolic call index (or never); destination 0..=6 bytes; unwind 10","assumes":[]}
#[kani::proof]
#[kani::unwind(10)]
fn c05e_nostd_read_exact_contract() {
    let data: [u8; 6] = kani::any();
    let len: usize = kani::any();
    kani::assume(len <= 6);
    let mut src = FaultySrc::<6>::new(data, len);
    src.chunk = kani::any();
    kani::assume(src.chunk >= 1 && src.chunk <= 6);
    src.intr_at = kani::any();
    let want: usize = kani::any();
    kani::assume(want <= 6);
    let mut out = [0u8; 6];
    let r = src.read_exact(&mut out[..want]);
    if want <= len {
        assert!(r.is_ok(), "C05-E: read_exact failed although enough bytes were available");
        assert!(src.pos == want);
        let i: usize = kani::any();
        kani::assume(i < want);
        assert!(out[i] == data[i], "C05-E: read_exact delivered bytes out of order");
    } else {
        assert!(matches!(r, Err(Error::EOF)), "C05-E: short source must be an EOF error");
    }
    kani::cover!(src.chunk == 1 && want == 6 && len == 6, "six one-byte reads");
    kani::cover!(src.intr_at < 3 && r.is_ok() && want > 0, "interrupted then completed");
}

//@ {"name":"c05e_nostd_read_exact_error","props":["C05","C14"],"obligation":"C05-E","timeout":600,"functions":["no_std::default_read_exact"],"bounds":"source fails with a non-Interrupted error at call index 0..=2 (symbolic); chunk 1; destination 4 bytes; unwind 10","assumes":[]}
#[kani::proof]
#[kani::unwind(10)]
fn c05e_nostd_read_exact_error() {
    let mut src = FaultySrc::<6>::new(kani::any(), 6);
    src.chunk = 1;
    src.err_at = kani::any();
    kani::assume(src.err_at <= 2);
    let mut out = [0u8; 4];
    let r = src.read_exact(&mut out);
    assert!(matches!(r, Err(Error::Other(_))), "C05-E: source error not passed to the caller");
    kani::cover!(src.err_at == 2, "error after two good reads");
}

// C05-E / C14-E: write_all over a sink that accepts short writes / reports Interrupted / accepts nothing.
//@ {"name":"c05e_nostd_write_all_contract","props":["C05","C14"],"obligation":"C05-E","timeout":900,"functions":["no_std::Write::write_all"],"bounds":"6 arbitrary bytes; sink accepts 0..=6 bytes per call (symbolic, 0 = accepts nothing); one Interrupted at a symbolic call index; sink error at a symbolic call index or never; unwind 10","assumes":[]}
#[kani::proof]
#[kani::unwind(10)]
fn c05e_nostd_write_all_contract() {
    let data: [u8; 6] = kani::any();
    let mut sink = FaultySink::<8>::new();
    sink.chunk = kani::any();
    kani::assume(sink.chunk <= 6);
    sink.intr_at = kani::any();
    sink.err_at = kani::any();
    let n: usize = kani::any();
    kani::assume(n <= 6);
    let r = sink.write_all(&data[..n]);
    match r {
        Ok(()) => {
            assert!(sink.len == n, "C05-E: write_all returned Ok without writing everything");
            let i: usize = kani::any();
            kani::assume(i < n);
            assert!(sink.buf[i] == data[i], "C05-E: write_all wrote bytes out of order");
        }
        Err(Error::WriteZero(_)) => assert!(sink.chunk == 0 && n > 0),
        Err(Error::Other(_)) => assert!(sink.err_at != usize::MAX),
        Err(_) => panic!("C05-E: unexpected error kind from write_all"),
    }
    kani::cover!(sink.chunk == 1 && n == 6 && r.is_ok(), "six one-byte writes");
    kani::cover!(sink.chunk == 0 && n > 0, "write zero");
    kani::cover!(sink.intr_at == 1 && r.is_ok() && n == 6 && sink.chunk == 2, "interrupted then completed");
}

// C14-E: the slice implementations behave like std's (`&[u8]: Read` advances, `&mut [u8]: Write` fills and then fails).
//@ {"name":"c14e_nostd_slice_io","props":["C14","C05"],"obligation":"C14-E","timeout":600,"functions":["no_std::<impl Read for &[u8]>::read","no_std::<impl Write for &mut [u8]>::write"],"bounds":"6 arbitrary bytes; destination/source lengths 0..=6 symbolic; unwind 10","assumes":[]}
#[kani::proof]
#[kani::unwind(10)]
fn c14e_nostd_slice_io() {
    let data: [u8; 6] = kani::any();
    let n: usize = kani::any();
    kani::assume(n <= 6);
    let mut rd: &[u8] = &data[..n];
    let mut out = [0u8; 6];
    let want: usize = kani::any();
    kani::assume(want <= 6);
    let got = rd.read(&mut out[..want]).unwrap();
    assert!(got == core::cmp::min(n, want) && rd.len() == n - got);
    let mut store = [0u8; 4];
    let mut wr: &mut [u8] = &mut store[..];
    let r = wr.write(&data[..n]);
    if n == 0 {
        assert!(matches!(r, Ok(0)));
    } else {
        assert!(matches!(r, Ok(k) if k == core::cmp::min(n, 4)));
        if n >= 4 {
            assert!(matches!(wr.write(&data[..1]), Err(Error::WriteZero(_))), "std: writing to a full slice is WriteZero via write_all / Ok(0)");
        }
    }
    kani::cover!(n == 6 && want == 3, "partial read");
}
