//@@ {"inject":"src/lz/lz_decoder.rs","mod":"verif_api_lz_decoder","raw":true,"always":true}
// Read/write access to LZDecoder's private fields for harnesses living in other modules (cfg(kani) only).
#[cfg(kani)]
#[allow(dead_code)]
impl LZDecoder {
    pub(crate) fn verif_buf_size(&self) -> usize { self.buf_size }
    pub(crate) fn verif_pos(&self) -> usize { self.pos }
    pub(crate) fn verif_full(&self) -> usize { self.full }
    pub(crate) fn verif_start(&self) -> usize { self.start }
    pub(crate) fn verif_limit(&self) -> usize { self.limit }
    pub(crate) fn verif_pending(&self) -> (usize, usize) { (self.pending_len, self.pending_dist) }
    pub(crate) fn verif_buf(&self) -> &[u8] { &self.buf }
    /// Builds a decoder dictionary directly from its fields ("arbitrary pre-state" idiom).
    pub(crate) fn verif_from_parts(buf: Vec<u8>, start: usize, pos: usize, full: usize, limit: usize, pending_len: usize, pending_dist: usize) -> Self {
        let buf_size = buf.len();
        Self { buf, buf_size, start, pos, full, limit, pending_len, pending_dist }
    }
}
