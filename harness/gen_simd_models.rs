//@@ {"inject":"src/lz/lz_encoder.rs","mod":"verif_simd_models","raw":true,"features":"encoder","generator":"simd_models","selftests":[{"name":"simd_lane_model_equals_real_simd","features":"std,encoder,optimization","filter":"verif_selftest_simd_model","for":["normalize_twin"]}]}
// Per-lane models of normalize_{avx2,sse41,neon}, regenerated from the current source text (Engine L); the selftest
// runs the REAL AVX2/SSE4.1 functions (if the CPU has them) against the lane models on pseudo-random arrays.
#[cfg(any(kani, test))]
#[allow(dead_code, unused, clippy::all)]
pub(crate) mod verif_simd_models {
/*@GENERATED@*/

    #[cfg(all(test, feature = "std", target_arch = "x86_64"))]
    #[test]
    fn verif_selftest_simd_model() {
        #[repr(align(32))]
        struct A([i32; 32]);
        let mut s: u64 = std::env::var("VERIF_SEED").ok().and_then(|v| v.parse().ok()).unwrap_or(0u64) ^ 0xD1B5_4A32_D192_ED03;
        let mut next = move || {
            s ^= s << 13;
            s ^= s >> 7;
            s ^= s << 17;
            s
        };
        let mut ran = 0;
        for _ in 0..4000 {
            let off = match next() % 3 { 0 => next() as i32, 1 => (next() % 0x7FFF_FFFF) as i32, _ => i32::MAX - (next() % 70000) as i32 };
            let mut a = A([0; 32]);
            for x in a.0.iter_mut() {
                *x = match next() % 4 { 0 => next() as i32, 1 => off.wrapping_add((next() % 7) as i32 - 3), 2 => (next() % 0x7FFF_FFFF) as i32, _ => 0 };
            }
            let before = a.0;
            if std::arch::is_x86_feature_detected!("avx2") {
                let mut b = A(before);
                unsafe { super::normalize_avx2(&mut b.0, off) };
                for i in 0..32 { assert_eq!(b.0[i], model_lane_avx2(before[i], off), "AVX2 lane model differs: p={} off={}", before[i], off); }
                ran += 1;
            }
            if std::arch::is_x86_feature_detected!("sse4.1") {
                let mut b = A(before);
                unsafe { super::normalize_sse41(&mut b.0, off) };
                for i in 0..32 { assert_eq!(b.0[i], model_lane_sse41(before[i], off), "SSE4.1 lane model differs: p={} off={}", before[i], off); }
                ran += 1;
            }
        }
        assert!(ran > 0, "no SIMD variant available on this CPU: lane models not validated");
        // whole-slice models (prefix / chunks / suffix structure) against the real functions on unaligned slices
        let mut ran2 = 0;
        for it in 0..2000usize {
            let off = (next() % 0x7FFF_FFFF) as i32;
            let mut a = A([0; 32]);
            for x in a.0.iter_mut() {
                *x = match next() % 3 { 0 => next() as i32, 1 => off.wrapping_add((next() % 7) as i32 - 3), _ => (next() % 0x7FFF_FFFF) as i32 };
            }
            let k = it % 8;
            let n = 8 + (next() % 17) as usize; // k + n <= 32
            if std::arch::is_x86_feature_detected!("avx2") {
                let mut real = A(a.0);
                let mut model = a.0;
                let pre = unsafe { real.0[k..k + n].align_to::<core::arch::x86_64::__m256i>().0.len() };
                unsafe { super::normalize_avx2(&mut real.0[k..k + n], off) };
                model_normalize_avx2(&mut model[k..k + n], off, pre);
                assert_eq!(real.0, model, "AVX2 whole-slice model differs (k={k}, n={n}, off={off})");
                ran2 += 1;
            }
            if std::arch::is_x86_feature_detected!("sse4.1") {
                let mut real = A(a.0);
                let mut model = a.0;
                let pre = unsafe { real.0[k..k + n].align_to::<core::arch::x86_64::__m128i>().0.len() };
                unsafe { super::normalize_sse41(&mut real.0[k..k + n], off) };
                model_normalize_sse41(&mut model[k..k + n], off, pre);
                assert_eq!(real.0, model, "SSE4.1 whole-slice model differs (k={k}, n={n}, off={off})");
                ran2 += 1;
            }
        }
        assert!(ran2 > 0);
    }
}
