//@@ {"wip":true,"inject":"src/lzip/writer.rs","features":"encoder,lzip","needs":["stubs_enc","stubs_enc_normal","stubs_dec"]}

use crate::{EncodeMode, MFType};

// C18-B2 / C13: no write may put more than the configured member size into the current member, however the caller cuts its
// write calls.  Real LZIPWriter::new + start_new_member (real LZMAWriter with a 4 KiB dictionary), then the member's byte
// counter is set to an arbitrary value below the limit and one write of 0..=6 bytes is made.  Closing the member would run
// the real LZMA encoder over the window (hash tables: out of reach), so that path is cut (`finish_current_member` -> assume
// false): decided is everything up to the point where the writer decides how many bytes the current member still takes.
fn verif_cut_finish_member<W: Write>(_w: &mut LZIPWriter<W>) -> Result<()> {
    kani::assume(false);
    Ok(())
}

//@ {"name":"c18b_lzip_member_size_respected","props":["C18","C13","C02"],"obligation":"C18-B","timeout":1800,"mem_gb":9,"stubbing":true,"functions":["lzip::writer::LZIPWriter::write","lzip::writer::LZIPWriter::should_finish_member","enc::lzma_writer::LZMAWriter::write","lz::lz_encoder::LZEncoderData::fill_window"],"bounds":"member_size 4096..=4100 (symbolic; dictionary 4096), bytes already in the member 1..member_size-1 (symbolic), one write of 0..=6 arbitrary bytes; paths that close the member are cut; unwind 12","assumes":["member counter state set directly (the LZMA window holds no data): accounting only","finish_current_member cut with assume(false)"],"stubs":["LZMAEncoder::new -> verif_cheap_encoder","LZIPWriter::finish_current_member -> assume(false)"]}
#[kani::proof]
#[kani::unwind(12)]
#[kani::stub(crate::enc::encoder::LZMAEncoder::new, crate::enc::encoder::verif_stubs_enc::verif_cheap_encoder)]
#[kani::stub(crate::lzip::writer::LZIPWriter::finish_current_member, verif_cut_finish_member)]
fn c18b_lzip_member_size_respected() {
    let m: u64 = kani::any();
    kani::assume(m >= 4096 && m <= 4100);
    let o = LZIPOptions {
        lzma_options: LZMAOptions::new(4096, 3, 0, 2, EncodeMode::Fast, 32, MFType::HC4, 4),
        member_size: NonZeroU64::new(m),
    };
    let mut sink = Sink::<16>::new();
    let mut w = LZIPWriter::new(&mut sink, o);
    assert!(w.start_new_member().is_ok());
    let s: u64 = kani::any();
    kani::assume(s >= 1 && s < m);
    w.current_member_uncompressed_size = s;
    w.uncompressed_size = s;
    let data: [u8; 6] = kani::any();
    let n: usize = kani::any();
    kani::assume(n <= 6);
    kani::cover!(s + n as u64 > m, "write straddles the member limit");
    let r = w.write(&data[..n]);
    assert!(w.current_member_uncompressed_size <= m, "C18-B: a member received more uncompressed data than the configured member size");
    if let Ok(k) = r {
        assert!(k <= n);
        assert!(w.current_member_uncompressed_size == s + k as u64, "C18-B: member byte counter differs from the bytes accepted");
    }
    kani::cover!(s + n as u64 <= m && n > 0, "write fits");
    core::mem::forget(w);
}
