//@@ {"inject":"src/lzip/writer.rs","features":"encoder,lzip","needs":["stubs_enc","stubs_enc_normal","stubs_dec"]}

use crate::{EncodeMode, MFType};

// C18-B2 / C13: a write that straddles the member limit must be cut at the limit, however the caller sizes its write calls.
// Real LZIPWriter::new + start_new_member (real LZMAWriter, 4 KiB dictionary); the member's byte counter is set to
// member_size - 2 and ONE write of 6 arbitrary bytes is made (all lengths concrete: a symbolic length into the 270 KB LZMA
// window did not finish in 1 800 s).  Closing the member would run the real LZMA encoder over the window (hash tables: out of
// reach), so `finish_current_member` is replaced by a stub that checks the limit and ends the path.
static mut MEMBER_LIMIT: u64 = 0;
fn verif_cut_finish_member<W: Write>(w: &mut LZIPWriter<W>) -> Result<()> {
    unsafe {
        assert!(w.current_member_uncompressed_size <= MEMBER_LIMIT, "C18-B: a member received more uncompressed data than the configured member size");
        assert!(w.current_member_uncompressed_size == MEMBER_LIMIT, "C18-B: member closed before it was full although more data was offered");
    }
    kani::cover!(true, "member closed exactly at the limit");
    kani::assume(false);
    Ok(())
}

//@ {"name":"c18b_lzip_member_limit_straddle","replay":"model","props":["C18","C13","C02"],"obligation":"C18-B","timeout":1800,"mem_gb":9,"stubbing":true,"functions":["lzip::writer::LZIPWriter::write","lzip::writer::LZIPWriter::should_finish_member","enc::lzma_writer::LZMAWriter::write","lz::lz_encoder::LZEncoderData::fill_window"],"bounds":"member_size 4096 (= dictionary), 4094 bytes already in the member, one write of 6 arbitrary bytes (lengths concrete, data symbolic); the path ends where the member is closed; unwind 12","assumes":["member counter state set directly (the LZMA window holds no data): accounting only"],"stubs":["LZMAEncoder::new -> verif_cheap_encoder","LZIPWriter::finish_current_member -> limit check + end of path"]}
#[kani::proof]
#[kani::unwind(12)]
#[kani::stub(crate::enc::encoder::LZMAEncoder::new, crate::enc::encoder::verif_stubs_enc::verif_cheap_encoder)]
#[kani::stub(crate::lzip::writer::LZIPWriter::finish_current_member, verif_cut_finish_member)]
fn c18b_lzip_member_limit_straddle() {
    let m: u64 = 4096;
    unsafe { MEMBER_LIMIT = m; }
    let o = LZIPOptions {
        lzma_options: LZMAOptions::new(4096, 3, 0, 2, EncodeMode::Fast, 32, MFType::HC4, 4),
        member_size: NonZeroU64::new(m),
    };
    let mut sink = Sink::<16>::new();
    let mut w = LZIPWriter::new(&mut sink, o);
    assert!(w.start_new_member().is_ok());
    w.current_member_uncompressed_size = m - 2;
    w.uncompressed_size = m - 2;
    let data: [u8; 6] = kani::any();
    let r = w.write(&data);
    // only reached if the writer did NOT close the member: then it must not have taken more than the member holds
    assert!(w.current_member_uncompressed_size <= m, "C18-B: a member received more uncompressed data than the configured member size");
    assert!(!matches!(r, Ok(6)), "C18-B: a write straddling the member limit was accepted into one member");
    core::mem::forget(w);
}
