//@@ {"inject":"src/lzip/reader.rs","features":"encoder,lzip","needs":["stubs_dec"],"stubbing":true,"stubs":["LZMADecoder::new replaced by verif_havoc_decoder (tables never read: no symbol is decoded in these harnesses)"]}

use crate::lzip::{LZIP_MAGIC, LZIP_VERSION};

// C04-D: non-empty input that does not start with a valid LZIP member header must be an error, not an empty file.
// (The format tolerates garbage only AFTER a complete member; these harnesses are about the very first member.)
fn first_header_garbage(full: bool) {
    let src = Src::<6>::any();
    let b = src.buf;
    let n = src.len;
    kani::assume(n >= 1);
    kani::assume(full == (n == 6));
    let magic_ok = b[0] == LZIP_MAGIC[0] && b[1] == LZIP_MAGIC[1] && b[2] == LZIP_MAGIC[2] && b[3] == LZIP_MAGIC[3];
    let valid = n == 6 && magic_ok && b[4] == LZIP_VERSION && crate::lzip::decode_dict_size(b[5]).is_ok();
    kani::assume(!valid);
    let mut src = src;
    let mut r = LZIPReader::new(&mut src).unwrap();
    // start_next_member() is what read() calls first; Ok(false) is what read() turns into "end of data, Ok(0)".
    // (Calling read() itself sends CBMC through the LZMA decode loop on the - infeasible - valid-header path: > 20 min.)
    let res = r.start_next_member();
    assert!(res.is_err(), "C04-D: input that is not an LZIP member was decoded as an empty file");
    kani::cover!(!full || (magic_ok && b[4] != LZIP_VERSION), "unsupported version (full-length variant)");
    kani::cover!(!full || (magic_ok && b[4] == LZIP_VERSION), "bad dictionary byte (full-length variant)");
    kani::cover!(full || b[0] == LZIP_MAGIC[0], "truncated header starting with the magic (truncated variant)");
    kani::cover!(true, "end reached");
    core::mem::forget(r);
}

//@ {"name":"c04d_lzip_first_header_invalid","props":["C04","C06"],"obligation":"C04-D","timeout":1200,"mem_gb":9,"functions":["lzip::reader::LZIPReader::start_next_member (first thing LZIPReader::read does)","lzip::LZIPHeader::parse","lzip::decode_dict_size"],"bounds":"source = 6 arbitrary bytes that are NOT a valid header (wrong magic, version, or dictionary byte); start_next_member on a fresh reader; unwind 10","assumes":[]}
#[kani::proof]
#[kani::unwind(10)]
#[kani::stub(crate::decoder::LZMADecoder::new, crate::decoder::verif_stubs_dec::verif_havoc_decoder)]
fn c04d_lzip_first_header_invalid() { first_header_garbage(true); }

//@ {"name":"c04d_lzip_first_header_truncated","props":["C04","C05"],"obligation":"C04-D","timeout":1200,"mem_gb":9,"functions":["lzip::reader::LZIPReader::start_next_member (first thing LZIPReader::read does)","lzip::LZIPHeader::parse"],"bounds":"source = 1..=5 arbitrary bytes then end of input; start_next_member on a fresh reader; unwind 10","assumes":[]}
#[kani::proof]
#[kani::unwind(10)]
#[kani::stub(crate::decoder::LZMADecoder::new, crate::decoder::verif_stubs_dec::verif_havoc_decoder)]
fn c04d_lzip_first_header_truncated() { first_header_garbage(false); }

// C07-E: zero-length read on a fresh reader returns Ok(0) and consumes nothing.
//@ {"name":"c07e_lzip_zero_len_read","props":["C07"],"obligation":"C07-E","timeout":600,"functions":["lzip::reader::LZIPReader::read"],"bounds":"any 6 source bytes; destination of length 0","assumes":[]}
#[kani::proof]
#[kani::unwind(10)]
#[kani::stub(crate::decoder::LZMADecoder::new, crate::decoder::verif_stubs_dec::verif_havoc_decoder)]
fn c07e_lzip_zero_len_read() {
    let mut src = Src::<6>::any();
    let mut r = LZIPReader::new(&mut src).unwrap();
    let res = r.read(&mut []);
    assert!(matches!(res, Ok(0)));
    assert!(r.inner.as_ref().unwrap().pos == 0, "C07-E: zero-length read consumed input");
    kani::cover!(true, "end reached");
    core::mem::forget(r);
}

// C04-C: member trailer verification: Ok iff CRC32, data size and member size all match what was really seen.
//@ {"name":"c04c_lzip_trailer_fields","props":["C04","C02"],"obligation":"C04-C","timeout":1500,"mem_gb":9,"functions":["lzip::reader::LZIPReader::finish_current_member","lzip::LZIPTrailer::parse"],"bounds":"2 arbitrary data bytes fed to the CRC; counted data size any u64 < 2^62; compressed byte count any u64 < 2^62; arbitrary 20-byte trailer; unwind 24","assumes":["the reader is placed in the state 'member body consumed' by constructing its fields directly (LZMAReader built by the real constructor on a 5-byte range coder init)"]}
#[kani::proof]
#[kani::unwind(24)]
#[kani::stub(crate::decoder::LZMADecoder::new, crate::decoder::verif_stubs_dec::verif_havoc_decoder)]
fn c04c_lzip_trailer_fields() {
    let trailer: [u8; 20] = kani::any();
    let mut buf = [0u8; 25];
    let mut i = 0;
    while i < 20 {
        buf[5 + i] = trailer[i];
        i += 1;
    }
    let mut src = Src::<25>::full(buf);
    let counting = CountingReader::new(&mut src);
    let lz = LZMAReader::new(counting, u64::MAX, 3, 0, 2, 4096, None).unwrap(); // consumes the 5 init bytes
    let data: [u8; 2] = kani::any();
    let mut digest = CRC32.digest();
    digest.update(&data);
    let data_size: u64 = kani::any();
    kani::assume(data_size < (1 << 62));
    let mut r = LZIPReader {
        inner: None,
        lzma_reader: Some(lz),
        current_header: None,
        finished: false,
        trailer_buf: Vec::new(),
        crc_digest: Some(digest),
        data_size,
    };
    let res = r.finish_current_member();
    let t_crc = u32::from_le_bytes([trailer[0], trailer[1], trailer[2], trailer[3]]);
    let t_data = u64::from_le_bytes([trailer[4], trailer[5], trailer[6], trailer[7], trailer[8], trailer[9], trailer[10], trailer[11]]);
    let t_member = u64::from_le_bytes([trailer[12], trailer[13], trailer[14], trailer[15], trailer[16], trailer[17], trailer[18], trailer[19]]);
    let good = t_crc == CRC32.checksum(&data) && t_data == data_size && t_member == (HEADER_SIZE as u64 + 5 + TRAILER_SIZE as u64);
    assert!(res.is_ok() == good, "C04-C: LZIP trailer accepted/rejected against the three field comparisons");
    kani::cover!(good, "matching trailer");
    kani::cover!(!good && t_crc == CRC32.checksum(&data), "size mismatch only");
    core::mem::forget(r);
}

// C12: every member is decoded with the dictionary size of ITS OWN header (members of one file may differ).
//@ {"name":"c12_lzip_next_member_own_dict","props":["C12","C02"],"obligation":"C12-A","timeout":1500,"mem_gb":9,"functions":["lzip::reader::LZIPReader::start_next_member","lzip::LZIPHeader::parse","lzma_reader::LZMAReader::new"],"bounds":"previous member header with a 4 KiB dictionary; next member header with dictionary byte 12..=20 (4 KiB .. 1 MiB, fraction 0; symbolic); unwind 12","assumes":[]}
#[kani::proof]
#[kani::unwind(12)]
#[kani::stub(crate::decoder::LZMADecoder::new, crate::decoder::verif_stubs_dec::verif_havoc_decoder)]
fn c12_lzip_next_member_own_dict() {
    let db: u8 = kani::any();
    kani::assume(db >= 12 && db <= 20);
    let mut bytes = [0u8; 11];
    bytes[0] = b'L'; bytes[1] = b'Z'; bytes[2] = b'I'; bytes[3] = b'P'; bytes[4] = 1; bytes[5] = db;
    let mut src = Src::<11>::full(bytes);
    let mut r = LZIPReader::new(&mut src).unwrap();
    r.current_header = Some(LZIPHeader { version: 1, dict_size: 4096 });
    let res = r.start_next_member();
    assert!(matches!(res, Ok(true)));
    let want = 1u32 << db;
    assert!(r.current_header.as_ref().unwrap().dict_size == want);
    let got = r.lzma_reader.as_ref().unwrap().verif_dict_buf_size();
    assert!(got as u64 >= want as u64, "C12: member decoded with a smaller dictionary than its own header declares");
    kani::cover!(db == 20, "1 MiB member after a 4 KiB member");
    core::mem::forget(r);
}
