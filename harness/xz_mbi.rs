//@@ {"inject":"src/xz.rs","features":"encoder,xz"}

// C02-B: XZ multibyte integers: encode / parse / count agree for every 63-bit value; larger values are refused.
//@ {"name":"c02b_mbi_roundtrip","props":["C02","C03"],"obligation":"C02-B","timeout":300,"functions":["xz::encode_multibyte_integer","xz::parse_multibyte_integer","xz::count_multibyte_integer_size","xz::count_multibyte_integer_size_for_value","xz::parse_multibyte_integer_from_reader"],"bounds":"value: every u64; buffer 10 bytes; unwind 11","assumes":[]}
#[kani::proof]
#[kani::unwind(11)]
fn c02b_mbi_roundtrip() {
    let v: u64 = kani::any();
    let mut buf = [0u8; 10];
    match encode_multibyte_integer(v, &mut buf) {
        Ok(n) => {
            assert!(v <= u64::MAX / 2);
            assert!(n >= 1 && n <= 9);
            assert!(n == count_multibyte_integer_size_for_value(v));
            assert!(count_multibyte_integer_size(&buf) == n);
            // spec (xz-file-format 1.2.0 section 1.2): 7 bits per byte little endian, continuation bit on all but the last,
            // minimal length
            assert!(buf[n - 1] & 0x80 == 0);
            assert!(n == 1 || buf[n - 1] != 0);
            let p = parse_multibyte_integer(&buf[..n]);
            assert!(p.is_ok() && p.unwrap() == v);
            let mut src = Src::<10>::new(buf, n);
            let q = parse_multibyte_integer_from_reader(&mut src);
            assert!(q.is_ok() && q.unwrap() == v);
            assert!(src.pos == n);
            kani::cover!(n == 9, "nine byte encoding");
            kani::cover!(n == 1, "one byte encoding");
        }
        Err(_) => assert!(v > u64::MAX / 2),
    }
    kani::cover!(true, "end reached");
}

// C06-E: the multibyte integer parsers are total on arbitrary bytes and never return a value above 2^63-1.
//@ {"name":"c06e_mbi_total","props":["C06","C04"],"obligation":"C06-E","timeout":300,"functions":["xz::parse_multibyte_integer","xz::count_multibyte_integer_size","xz::parse_multibyte_integer_from_reader"],"bounds":"any 10 bytes, any length 0..=10; unwind 11","assumes":[]}
#[kani::proof]
#[kani::unwind(11)]
fn c06e_mbi_total() {
    let buf: [u8; 10] = kani::any();
    let len: usize = kani::any();
    kani::assume(len <= 10);
    let a = parse_multibyte_integer(&buf[..len]);
    let c = count_multibyte_integer_size(&buf[..len]);
    assert!(c <= len);
    let mut src = Src::<10>::new(buf, len);
    let b = parse_multibyte_integer_from_reader(&mut src);
    if let Ok(x) = a {
        assert!(x <= u64::MAX / 2);
        assert!(c >= 1 && c <= 9);
        // slice parser and reader parser agree on value and on the number of bytes consumed
        assert!(b.is_ok() && b.unwrap() == x);
        assert!(src.pos == c);
        kani::cover!(c == 9, "nine bytes consumed");
    } else {
        assert!(b.is_err());
        kani::cover!(len == 10, "error on full buffer");
    }
    kani::cover!(true, "end reached");
}

// C04/C06: check-type byte: only the four supported ids are accepted.
//@ {"name":"c04a_check_type_byte","props":["C04","C06"],"obligation":"C04-A","timeout":120,"functions":["xz::CheckType::from_byte"],"bounds":"every u8","assumes":[]}
#[kani::proof]
fn c04a_check_type_byte() {
    let b: u8 = kani::any();
    match CheckType::from_byte(b) {
        Ok(t) => {
            assert!(b == 0 || b == 1 || b == 4 || b == 10);
            assert!(t as u8 == b);
        }
        Err(e) => {
            assert!(!(b == 0 || b == 1 || b == 4 || b == 10));
            assert!(is_invalid_data(&e));
        }
    }
    kani::cover!(b == 10, "sha256 id");
}
