//@@ {"inject":"src/filter/bcj.rs","features":"encoder"}

#[derive(Clone, Copy, PartialEq, Eq)]
enum Arch { X86, Arm, Thumb, Arm64, Ppc, Sparc, Ia64, Riscv }

fn mk(a: Arch, start: usize, enc: bool) -> BCJFilter {
    match a {
        Arch::X86 => BCJFilter::new_x86(start, enc),
        Arch::Arm => BCJFilter::new_arm(start, enc),
        Arch::Thumb => BCJFilter::new_arm_thumb(start, enc),
        Arch::Arm64 => BCJFilter::new_arm64(start, enc),
        Arch::Ppc => BCJFilter::new_power_pc(start, enc),
        Arch::Sparc => BCJFilter::new_sparc(start, enc),
        Arch::Ia64 => BCJFilter::new_ia64(start, enc),
        Arch::Riscv => BCJFilter::new_riscv(start, enc),
    }
}

fn align(a: Arch) -> usize {
    match a { Arch::X86 => 1, Arch::Thumb | Arch::Riscv => 2, Arch::Ia64 => 16, _ => 4 }
}

// C11-A + C06-G: decode(encode(x)) == x for every N-byte buffer and every start offset a container can hand over
// (any u32; equality is asserted for offsets aligned as the XZ block header parser requires), same processed count,
// same final position; and neither direction panics (dev-profile overflow included) for ANY u32 offset.
fn bcj_inverse<const N: usize>(a: Arch) {
    let x: [u8; N] = kani::any();
    let start: u32 = kani::any();
    let mut y = x;
    let mut e = mk(a, start as usize, true);
    let mut d = mk(a, start as usize, false);
    let n = e.code(&mut y);
    assert!(n <= N);
    let changed = y != x;
    let m = d.code(&mut y);
    assert!(m <= N);
    if (start as usize) % align(a) == 0 {
        assert!(n == m, "C11-A: encoder and decoder processed different byte counts");
        assert!(y == x, "C11-A: BCJ decode(encode(x)) != x");
        assert!(e.pos == d.pos && e.prev_mask == d.prev_mask);
        kani::cover!(changed, "a branch instruction was converted");
        kani::cover!(changed && start >= 0x8000_0000, "conversion with offset above 2^31");
    }
    kani::cover!(true, "end reached");
}

//@ {"name":"c11a_inverse_arm","props":["C11","C06"],"obligation":"C11-A","timeout":900,"functions":["filter::bcj::BCJFilter::arm_code","filter::bcj::BCJFilter::code"],"bounds":"any 8 bytes (two instructions) x any u32 start offset; unwind 10","assumes":["equality asserted for 4-aligned offsets only (the only ones BlockHeader::parse lets through)"]}
#[kani::proof]
#[kani::unwind(10)]
fn c11a_inverse_arm() { bcj_inverse::<8>(Arch::Arm); }

//@ {"name":"c11a_inverse_thumb","props":["C11","C06"],"obligation":"C11-A","timeout":900,"functions":["filter::bcj::BCJFilter::arm_thumb_code"],"bounds":"any 8 bytes x any u32 start offset; unwind 10","assumes":["equality asserted for 2-aligned offsets only"]}
#[kani::proof]
#[kani::unwind(10)]
fn c11a_inverse_thumb() { bcj_inverse::<8>(Arch::Thumb); }

//@ {"name":"c11a_inverse_arm64","props":["C11","C06"],"obligation":"C11-A","timeout":900,"functions":["filter::bcj::BCJFilter::arm64_code"],"bounds":"any 8 bytes x any u32 start offset; unwind 10","assumes":["equality asserted for 4-aligned offsets only"]}
#[kani::proof]
#[kani::unwind(10)]
fn c11a_inverse_arm64() { bcj_inverse::<8>(Arch::Arm64); }

//@ {"name":"c11a_inverse_ppc","props":["C11","C06"],"obligation":"C11-A","timeout":900,"functions":["filter::bcj::BCJFilter::ppc_code"],"bounds":"any 8 bytes x any u32 start offset; unwind 10","assumes":["equality asserted for 4-aligned offsets only"]}
#[kani::proof]
#[kani::unwind(10)]
fn c11a_inverse_ppc() { bcj_inverse::<8>(Arch::Ppc); }

//@ {"name":"c11a_inverse_sparc","props":["C11","C06"],"obligation":"C11-A","timeout":900,"functions":["filter::bcj::BCJFilter::sparc_code"],"bounds":"any 8 bytes x any u32 start offset; unwind 10","assumes":["equality asserted for 4-aligned offsets only"]}
#[kani::proof]
#[kani::unwind(10)]
fn c11a_inverse_sparc() { bcj_inverse::<8>(Arch::Sparc); }

//@ {"name":"c11a_inverse_x86","props":["C11","C06"],"obligation":"C11-A","timeout":1500,"functions":["filter::bcj::BCJFilter::x86_code"],"bounds":"any 10 bytes x any u32 start offset; unwind 12","assumes":[]}
#[kani::proof]
#[kani::unwind(12)]
fn c11a_inverse_x86() { bcj_inverse::<10>(Arch::X86); }

//@ {"name":"c11a_inverse_ia64","props":["C11","C06"],"obligation":"C11-A","timeout":1500,"functions":["filter::bcj::BCJFilter::ia64_code"],"bounds":"any 16 bytes (one bundle) x any u32 start offset; unwind 18","assumes":["equality asserted for 16-aligned offsets only"]}
#[kani::proof]
#[kani::unwind(18)]
fn c11a_inverse_ia64() { bcj_inverse::<16>(Arch::Ia64); }

//@ {"name":"c11a_inverse_riscv","props":["C11","C06"],"obligation":"C11-A","timeout":1500,"functions":["filter::bcj::BCJFilter::riscv_code"],"bounds":"any 16 bytes x any u32 start offset; unwind 18","assumes":["equality asserted for 2-aligned offsets only"]}
#[kani::proof]
#[kani::unwind(18)]
fn c11a_inverse_riscv() { bcj_inverse::<16>(Arch::Riscv); }

//@ {"name":"c11a_inverse_arm_12","props":["C11"],"tier":"thorough","obligation":"C11-A","timeout":2400,"functions":["filter::bcj::BCJFilter::arm_code"],"bounds":"any 12 bytes x any u32 start offset; unwind 14","assumes":[]}
#[kani::proof]
#[kani::unwind(14)]
fn c11a_inverse_arm_12() { bcj_inverse::<12>(Arch::Arm); }

//@ {"name":"c11a_inverse_x86_12","props":["C11"],"tier":"thorough","obligation":"C11-A","timeout":3000,"mem_gb":12,"functions":["filter::bcj::BCJFilter::x86_code"],"bounds":"any 12 bytes x any u32 start offset; unwind 14","assumes":[]}
#[kani::proof]
#[kani::unwind(14)]
fn c11a_inverse_x86_12() { bcj_inverse::<12>(Arch::X86); }

// ---------------------------------------------------------------------------------------------- reference formulas
// C11-B: the simple-architecture encoders equal the one-line formulas of the reference implementation's
// src/liblzma/simple/{arm,powerpc,sparc}.c, written here over u32 (the C code uses uint32_t).

fn ref_arm(buf: &mut [u8; 8], now_pos: u32, enc: bool) {
    let mut i = 0;
    while i + 4 <= 8 {
        if buf[i + 3] == 0xEB {
            let mut src = ((buf[i + 2] as u32) << 16) | ((buf[i + 1] as u32) << 8) | buf[i] as u32;
            src <<= 2;
            let pc = now_pos.wrapping_add(i as u32).wrapping_add(8);
            let dest = if enc { pc.wrapping_add(src) } else { src.wrapping_sub(pc) } >> 2;
            buf[i + 2] = (dest >> 16) as u8;
            buf[i + 1] = (dest >> 8) as u8;
            buf[i] = dest as u8;
        }
        i += 4;
    }
}

fn ref_ppc(buf: &mut [u8; 8], now_pos: u32, enc: bool) {
    let mut i = 0;
    while i + 4 <= 8 {
        if (buf[i] >> 2) == 0x12 && (buf[i + 3] & 3) == 1 {
            let src = (((buf[i] & 3) as u32) << 24) | ((buf[i + 1] as u32) << 16) | ((buf[i + 2] as u32) << 8) | (buf[i + 3] as u32 & !3);
            let pc = now_pos.wrapping_add(i as u32);
            let dest = if enc { pc.wrapping_add(src) } else { src.wrapping_sub(pc) };
            buf[i] = 0x48 | ((dest >> 24) & 0x03) as u8;
            buf[i + 1] = (dest >> 16) as u8;
            buf[i + 2] = (dest >> 8) as u8;
            buf[i + 3] &= 0x03;
            buf[i + 3] |= dest as u8;
        }
        i += 4;
    }
}

fn ref_sparc(buf: &mut [u8; 8], now_pos: u32, enc: bool) {
    let mut i = 0;
    while i + 4 <= 8 {
        if (buf[i] == 0x40 && (buf[i + 1] & 0xC0) == 0x00) || (buf[i] == 0x7F && (buf[i + 1] & 0xC0) == 0xC0) {
            let mut src = ((buf[i] as u32) << 24) | ((buf[i + 1] as u32) << 16) | ((buf[i + 2] as u32) << 8) | buf[i + 3] as u32;
            src <<= 2;
            let pc = now_pos.wrapping_add(i as u32);
            let mut dest = if enc { pc.wrapping_add(src) } else { src.wrapping_sub(pc) };
            dest >>= 2;
            dest = ((0u32.wrapping_sub((dest >> 22) & 1) << 22) & 0x3FFF_FFFF) | (dest & 0x3F_FFFF) | 0x4000_0000;
            buf[i] = (dest >> 24) as u8;
            buf[i + 1] = (dest >> 16) as u8;
            buf[i + 2] = (dest >> 8) as u8;
            buf[i + 3] = dest as u8;
        }
        i += 4;
    }
}

fn bcj_reference(a: Arch) {
    let x: [u8; 8] = kani::any();
    let start: u32 = kani::any();
    kani::assume(start % 4 == 0);
    let enc: bool = kani::any();
    let mut y = x;
    let mut f = mk(a, start as usize, enc);
    let n = f.code(&mut y);
    let mut z = x;
    match a {
        Arch::Arm => ref_arm(&mut z, start, enc),
        Arch::Ppc => ref_ppc(&mut z, start, enc),
        _ => ref_sparc(&mut z, start, enc),
    }
    assert!(n == 8);
    assert!(y == z, "C11-B: filter output differs from the reference implementation's formula");
    kani::cover!(y != x && enc, "encoder converted an instruction");
    kani::cover!(y != x && !enc, "decoder converted an instruction");
}

//@ {"name":"c11b_reference_arm","props":["C11","C03"],"obligation":"C11-B","timeout":900,"functions":["filter::bcj::BCJFilter::arm_code"],"bounds":"any 8 bytes x any 4-aligned u32 start offset x both directions; unwind 10","assumes":["reference = liblzma simple/arm.c formula over uint32_t, restated in the harness"]}
#[kani::proof]
#[kani::unwind(10)]
fn c11b_reference_arm() { bcj_reference(Arch::Arm); }

//@ {"name":"c11b_reference_ppc","props":["C11","C03"],"obligation":"C11-B","timeout":900,"functions":["filter::bcj::BCJFilter::ppc_code"],"bounds":"any 8 bytes x any 4-aligned u32 start offset x both directions; unwind 10","assumes":["reference = liblzma simple/powerpc.c formula"]}
#[kani::proof]
#[kani::unwind(10)]
fn c11b_reference_ppc() { bcj_reference(Arch::Ppc); }

//@ {"name":"c11b_reference_sparc","props":["C11","C03"],"obligation":"C11-B","timeout":900,"functions":["filter::bcj::BCJFilter::sparc_code"],"bounds":"any 8 bytes x any 4-aligned u32 start offset x both directions; unwind 10","assumes":["reference = liblzma simple/sparc.c formula"]}
#[kani::proof]
#[kani::unwind(10)]
fn c11b_reference_sparc() { bcj_reference(Arch::Sparc); }

// ---------------------------------------------------------------------------------------------- reader / writer wrappers

// C07-B / C02: BCJWriter: the bytes that reach the sink must not depend on how the caller cuts the data into write
// calls (the decoder sees one contiguous stream and converts instructions at stream-relative positions).
fn bcj_writer_split_arm(c: usize) {
    let x: [u8; 8] = kani::any();
    let (mut s1, mut s2) = (Sink::<16>::new(), Sink::<16>::new()); // sinks outside the writers (see xz_reader.rs)
    let mut one = BCJWriter::new_arm(&mut s1, 0);
    assert!(matches!(one.write(&x), Ok(8)));
    let mut two = BCJWriter::new_arm(&mut s2, 0);
    assert!(matches!(two.write(&x[..c]), Ok(k) if k == c));
    assert!(matches!(two.write(&x[c..]), Ok(k) if k == 8 - c));
    let a = one.into_inner();
    let b = two.into_inner();
    assert!(a.len == 8 && b.len == 8, "C07-B: bytes lost or duplicated");
    let i: usize = kani::any();
    kani::assume(i < 8);
    assert!(a.buf[i] == b.buf[i], "C07-B: BCJ-encoded bytes depend on how the caller split the write calls");
    kani::cover!(a.buf[7] == 0xEB, "second instruction is a branch");
}

//@ {"name":"c07b_bcj_writer_split_arm_mid","props":["C07","C02"],"obligation":"C07-B","timeout":1500,"mem_gb":9,"functions":["filter::bcj::BCJWriter::write","filter::bcj::BCJFilter::arm_code"],"bounds":"ARM filter, start offset 0; 8 arbitrary bytes written as write(x[..6]); write(x[6..]) (cut inside the second instruction; the cut position is concrete because a symbolic write length makes the writer's Vec::resize a symbolic-size allocation: 9 GB OOM) versus one write; unwind 12","assumes":[]}
#[kani::proof]
#[kani::unwind(12)]
fn c07b_bcj_writer_split_arm_mid() { bcj_writer_split_arm(6); }

//@ {"name":"c07b_bcj_writer_split_arm_aligned","props":["C07","C02"],"obligation":"C07-B","timeout":1500,"mem_gb":9,"functions":["filter::bcj::BCJWriter::write","filter::bcj::BCJFilter::arm_code"],"bounds":"as above with the cut between the two instructions (c = 4); unwind 12","assumes":[]}
#[kani::proof]
#[kani::unwind(12)]
fn c07b_bcj_writer_split_arm_aligned() { bcj_writer_split_arm(4); }

// C11-D / C07-C: BCJReader over a stream produced by the encoder kernel returns the original bytes, for any split of
// the destination buffer into two read calls.
//@ {"name":"c11d_bcj_reader_roundtrip_split_arm","props":["C11","C07","C02"],"tier":"thorough","obligation":"C11-D","timeout":3600,"mem_gb":13,"functions":["filter::bcj::BCJReader::read","filter::bcj::BCJFilter::arm_code"],"bounds":"ARM filter, start offset any 4-aligned u32; 8 arbitrary bytes; destination cut at k in 0..=8 (two read calls, then reads until Ok(0)); unwind 14","assumes":[]}
#[kani::proof]
#[kani::unwind(14)]
fn c11d_bcj_reader_roundtrip_split_arm() {
    let x: [u8; 8] = kani::any();
    let start: u32 = kani::any();
    kani::assume(start % 4 == 0);
    let mut y = x;
    let mut e = BCJFilter::new_arm(start as usize, true);
    let n = e.code(&mut y);
    assert!(n == 8);
    let mut src = Src::<8>::full(y);
    let mut r = BCJReader::new_arm(&mut src, start as usize);
    let mut out = [0u8; 8];
    let k: usize = kani::any();
    kani::assume(k <= 8);
    let mut got = 0usize;
    let mut calls = 0;
    // first read with a destination of k bytes, then keep reading the rest until Ok(0)
    if k > 0 {
        let m = r.read(&mut out[..k]);
        assert!(m.is_ok());
        got += m.unwrap();
        assert!(got <= k);
    }
    while calls < 4 && got < 8 {
        let m = r.read(&mut out[got..]);
        assert!(m.is_ok());
        let m = m.unwrap();
        if m == 0 { break; }
        got += m;
        calls += 1;
    }
    assert!(got == 8, "C11-D: BCJ reader lost bytes");
    let i: usize = kani::any();
    kani::assume(i < 8);
    assert!(out[i] == x[i], "C11-D: BCJReader(encode(x)) != x");
    kani::cover!(y != x, "an instruction was converted");
    kani::cover!(k % 4 != 0, "destination split inside an instruction");
    core::mem::forget(r);
}

// C05-F: an Interrupted from the inner reader must be transient: retrying the read continues the stream.
//@ {"name":"c05f_bcj_reader_interrupted","props":["C05"],"tier":"thorough","obligation":"C05-F","timeout":3600,"mem_gb":24,"functions":["filter::bcj::BCJReader::read"],"bounds":"ARM filter; 8 arbitrary bytes; inner reader reports Interrupted at its first call; then two retries; unwind 14","assumes":[]}
#[kani::proof]
#[kani::unwind(14)]
fn c05f_bcj_reader_interrupted() {
    let x: [u8; 8] = kani::any();
    let mut src = FaultySrc::<8>::new(x, 8);
    src.intr_at = 0;
    let mut r = BCJReader::new_arm(&mut src, 0);
    let mut out = [0u8; 8];
    let first = r.read(&mut out);
    assert!(matches!(first, Err(crate::Error::Interrupted)));
    let second = r.read(&mut out);
    assert!(second.is_ok(), "C05-F: Interrupted from the source made the BCJ reader fail permanently");
    kani::cover!(true, "end reached");
    core::mem::forget(r);
}

// C07-C (kernel level): the filter is a pure function of the byte stream: running it over a buffer in two calls (the
// second call starting where the first one stopped, exactly as BCJReader/BCJWriter feed it) converts the same
// instructions to the same bytes as one call.  The carried state (pos, prev_mask) is what is being checked.
fn bcj_kernel_split<const N: usize>(a: Arch, min_first: usize) {
    let x: [u8; N] = kani::any();
    let start: u32 = kani::any();
    kani::assume((start as usize) % align(a) == 0);
    let enc: bool = kani::any();
    let mut y1 = x;
    let mut f1 = mk(a, start as usize, enc);
    let n1 = f1.code(&mut y1);
    let c: usize = kani::any();
    kani::assume(c >= min_first && c <= N);
    let mut y2 = x;
    let mut f2 = mk(a, start as usize, enc);
    let m1 = f2.code(&mut y2[..c]);
    assert!(m1 <= c);
    let m2 = f2.code(&mut y2[m1..]);
    assert!(m1 + m2 <= N);
    let done = core::cmp::min(n1, m1 + m2);
    let j: usize = kani::any();
    kani::assume(j < done);
    assert!(y1[j] == y2[j], "C07-C: BCJ filter output depends on how the stream was cut into filter calls");
    assert!(f2.pos.wrapping_sub(f1.pos) == (m1 + m2).wrapping_sub(n1), "C07-C: stream position not advanced by the processed byte count");
    kani::cover!(m1 > 0 && m2 > 0 && y1 != x, "both calls processed bytes and something was converted");
    kani::cover!(c < N && m1 < c, "first call left a tail that the second call re-examined");
}

//@ {"name":"c07c_bcj_kernel_split_x86","props":["C07","C11"],"obligation":"C07-C","timeout":2400,"mem_gb":9,"functions":["filter::bcj::BCJFilter::x86_code","filter::bcj::BCJFilter::code"],"bounds":"any 10 bytes x any u32 start offset x both directions; first call covers 5..=10 bytes (symbolic); unwind 12","assumes":[]}
#[kani::proof]
#[kani::unwind(12)]
fn c07c_bcj_kernel_split_x86() { bcj_kernel_split::<10>(Arch::X86, 5); }

//@ {"name":"c07c_bcj_kernel_split_arm","props":["C07","C11"],"obligation":"C07-C","timeout":1500,"functions":["filter::bcj::BCJFilter::arm_code"],"bounds":"any 12 bytes x any 4-aligned u32 start offset x both directions; first call covers 4..=12 bytes; unwind 14","assumes":[]}
#[kani::proof]
#[kani::unwind(14)]
fn c07c_bcj_kernel_split_arm() { bcj_kernel_split::<12>(Arch::Arm, 4); }

//@ {"name":"c07c_bcj_kernel_split_riscv","props":["C07","C11"],"tier":"thorough","obligation":"C07-C","timeout":3600,"mem_gb":9,"functions":["filter::bcj::BCJFilter::riscv_code"],"bounds":"any 16 bytes x any 2-aligned u32 start offset x both directions; first call covers 8..=16 bytes; unwind 18","assumes":[]}
#[kani::proof]
#[kani::unwind(18)]
fn c07c_bcj_kernel_split_riscv() { bcj_kernel_split::<16>(Arch::Riscv, 8); }
