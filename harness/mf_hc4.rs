//@@ {"inject":"src/lz/hc4.rs","features":"encoder","needs":["api_hash234"]}

// Match-finder step harnesses (C01 encoder side, C15 caller side): ONE real `find_matches` / `skip` call from an
// ARBITRARY match-finder state that satisfies the table invariant below, on an arbitrary window content.
//
// Table invariant (what every real history maintains; see DESIGN.md 10.9):
//   (T1) every hash-table / chain entry e is a position that was hashed earlier: 0 <= e <= lz_pos (pre-move value);
//   (T2) an entry is either STALE (lz_pos' - e >= cyclic_size, i.e. out of dictionary reach) or LIVE, and a live entry
//        denotes a byte that is still inside the window: delta = lz_pos' - e <= read_pos' (move_window keeps
//        keep_size_before >= dict_size bytes of history, c01f_window_fill_move);
//   (T3) a live entry of hash table k sits in the slot of the k-byte hash of the bytes at its position;
//   (T4) the chain entry of a position p is older than p.
// Generality: the three hash tables are an environment stub (harness/api_hash234.rs): the call reads exactly one slot per
// table - the slot of the current position's hash - and the stub returns an arbitrary entry admitted by (T1)-(T3) for it.
// The chain is the real one from the real constructor (all zero = all stale); `depth` of its slots are overwritten at
// symbolic indices with symbolic values constrained only by (T1), (T2), (T4); the call reads at most `depth` chain slots and
// 0 is itself admissible, so every state satisfying the invariant is covered as far as this call can observe it.


fn live(lz_next: i32, e: i32, cyclic_size: i32) -> bool {
    lz_next - e < cyclic_size
}

fn any_hc4<const WB: usize>(dict: u32, mlm: u32, nice_len: u32, depth: i32) -> (LZEncoderData, [u8; WB], HC4) {
    let content: [u8; WB] = kani::any();
    let d = LZEncoderData {
        keep_size_before: dict,
        keep_size_after: mlm,
        match_len_max: mlm,
        nice_len,
        buf: content.to_vec(),
        buf_size: WB,
        buf_limit_u16: WB - 2,
        read_pos: kani::any(),
        read_limit: kani::any(),
        finishing: kani::any(),
        write_pos: kani::any(),
        pending_size: kani::any(),
    };
    kani::assume(d.read_pos >= -1 && d.read_pos < d.write_pos && d.write_pos as usize <= WB);
    kani::assume(d.pending_size <= 4);
    let mut mf = HC4::new(dict, nice_len, depth);
    assert!(mf.cyclic_size == dict as i32 + 1);
    mf.lz_pos = kani::any();
    mf.cyclic_pos = kani::any();
    // no renormalisation in this step (the renormalisation step has its own harness)
    kani::assume(mf.lz_pos >= mf.cyclic_size && mf.lz_pos < 0x7FFF_FFFE);
    kani::assume(mf.cyclic_pos >= -1 && mf.cyclic_pos < mf.cyclic_size);
    (d, content, mf)
}

/// Chooses the entry each hash table holds for the current position and overwrites `n_chain` chain slots, all arbitrary
/// within (T1)-(T4).
fn havoc_tables<const WB: usize>(d: &LZEncoderData, content: &[u8; WB], mf: &mut HC4, n_chain: usize) {
    use crate::lz::hash234::verif_h234 as st;
    st::reset();
    let rp = d.read_pos + 1; // position the call will work on
    let lz_next = mf.lz_pos + 1;
    let cs = mf.cyclic_size;
    let avail = d.write_pos - rp;
    if avail < 4 {
        return; // the tables are not consulted
    }
    mf.hash.calc_hashes(&content[rp as usize..]);
    let cur = mf.hash.verif_values();
    for t in 0..3usize {
        let e: i32 = kani::any();
        kani::assume(e >= 0 && e <= mf.lz_pos); // T1
        if live(lz_next, e, cs) {
            let delta = lz_next - e;
            kani::assume(delta <= rp); // T2
            mf.hash.calc_hashes(&content[(rp - delta) as usize..]);
            let (h2, h3, h4) = mf.hash.verif_values();
            // T3: the entry was stored under the same k-byte hash as the current position's
            kani::assume(if t == 0 { h2 == cur.0 } else if t == 1 { h3 == cur.1 } else { h4 == cur.2 });
        }
        unsafe { st::ENTRY[t] = e; }
    }
    let cp_next = if mf.cyclic_pos + 1 == cs { 0 } else { mf.cyclic_pos + 1 };
    for _ in 0..n_chain {
        let ci: i32 = kani::any();
        let cv: i32 = kani::any();
        kani::assume(ci >= 0 && ci < cs);
        // slot ci belongs to the position `back` steps before the current one
        let back = if cp_next >= ci { cp_next - ci } else { cp_next - ci + cs };
        kani::assume(cv >= 0 && cv < lz_next - back); // T1 + T4
        if live(lz_next, cv, cs) {
            kani::assume(lz_next - cv <= rp); // T2
        }
        mf.chain[ci as usize] = cv;
    }
}

fn check_matches<const WB: usize>(d: &LZEncoderData, content: &[u8; WB], m: &Matches, limit: i32, cs: i32) {
    let rp = d.read_pos;
    assert!(m.count as usize <= m.len.len(), "C01-H: more matches than the Matches arrays hold");
    let i: usize = kani::any();
    kani::assume(i < m.count as usize);
    let len = m.len[i] as i32;
    let dist = m.dist[i];
    assert!(len >= 2 && len <= limit, "C01-H: match length outside 2..=min(match_len_max, avail)");
    assert!(dist >= 0 && dist + 1 < cs, "C01-H: match distance outside the dictionary");
    assert!(dist + 1 <= rp, "C15: match source starts before the window buffer");
    assert!(rp + len <= d.write_pos, "C15: match extends beyond the bytes written to the window");
    let j: i32 = kani::any();
    kani::assume(j >= 0 && j < len);
    assert!(content[(rp + j) as usize] == content[(rp - dist - 1 + j) as usize],
        "C01-H: match finder reported a (distance, length) pair whose bytes do not match");
    if i + 1 < m.count as usize {
        assert!(m.len[i + 1] > m.len[i], "C01-H: match lengths not strictly increasing");
    }
}

fn hc4_find_matches_step<const WB: usize>(dict: u32, mlm: u32, nice_len: u32, depth: i32) {
    let (mut d, content, mut mf) = any_hc4::<WB>(dict, mlm, nice_len, depth);
    havoc_tables(&d, &content, &mut mf, depth as usize);
    let (rp0, lz0, cp0, pend0) = (d.read_pos, mf.lz_pos, mf.cyclic_pos, d.pending_size);
    let cs = mf.cyclic_size;
    let mut m = Matches::new(nice_len as usize - 1);
    let old_h4 = unsafe { crate::lz::hash234::verif_h234::ENTRY[2] };
    mf.find_matches(&mut d, &mut m);
    assert!(d.read_pos == rp0 + 1, "C01-H: find_matches must advance the window by exactly one byte");
    let avail = d.write_pos - d.read_pos;
    if avail < 4 {
        assert!(m.count == 0 && d.pending_size == pend0 + 1 && mf.lz_pos == lz0 && mf.cyclic_pos == cp0,
            "C01-H: a position without 4 bytes of look-ahead must become pending and leave the finder untouched");
    } else {
        assert!(d.pending_size == pend0);
        assert!(mf.lz_pos == lz0 + 1);
        assert!(mf.cyclic_pos == if cp0 + 1 == cs { 0 } else { cp0 + 1 });
        let limit = if avail < mlm as i32 { avail } else { mlm as i32 };
        check_matches(&d, &content, &m, limit, cs);
        // the step re-establishes the table invariant for the new position
        unsafe {
            use crate::lz::hash234::verif_h234 as st;
            assert!(st::UPD_CALLS == 1 && st::UPD_POS == mf.lz_pos, "C01-H: hash tables not updated (exactly once) with the current position");
        }
        assert!(mf.chain[mf.cyclic_pos as usize] == old_h4, "C01-H: chain entry of the current position is not the previous hash-4 head");
        kani::cover!(m.count == 1, "one match");
        kani::cover!(m.count == 2, "two matches");
        kani::cover!(m.count == 3, "three matches (hash2, hash3, chain)");
        kani::cover!(m.count > 0 && m.len[m.count as usize - 1] as i32 == limit && avail < mlm as i32, "match cut by the end of the data");
        kani::cover!(m.count > 0 && m.dist[m.count as usize - 1] + 1 == dict as i32, "match at the maximum distance");
    }
    let k: usize = kani::any();
    kani::assume(k < WB);
    assert!(d.buf[k] == content[k], "C01-H: match finder modified the window");
    kani::cover!(avail < 4, "pending position");
    core::mem::forget(d);
    core::mem::forget(mf);
    core::mem::forget(m);
}

// C01-H: every (distance, length) HC4 reports is a true match inside the dictionary and the window.
//@ {"replay":"model","name":"c01h_hc4_find_matches_sound","tier":"thorough","props":["C01","C15","C13"],"obligation":"C01-H","stubbing":true,"stubs":["Hash234 table accessors -> environment stub (harness/api_hash234.rs)"],"timeout":7200,"mem_gb":9,"feature_variants":["encoder","encoder,optimization"],"functions":["lz::hc4::HC4::find_matches","lz::hc4::HC4::move_pos","lz::hc4::HC4::new","lz::hash234::Hash234::new","lz::hash234::Hash234::calc_hashes","lz::hash234::Hash234::update_tables","lz::lz_encoder::LZEncoderData::move_pos","lz::extend_match","lz::extend_match_safe"],"bounds":"dictionary 12 (cyclic_size 13), 40-byte window with arbitrary content, match_len_max 8, nice_len 8, depth limit 2; any read_pos/write_pos/finishing/pending, any lz_pos in [cyclic_size, 2^31-3], any cyclic_pos; one arbitrary admissible entry per hash table, two per chain (all the call can read); unwind 12","assumes":["table invariant T1-T4 (harness header)","no position renormalisation in this step (lz_pos + 1 < 0x7FFFFFFF)"]}
#[kani::proof]
#[kani::unwind(12)]
#[kani::stub(crate::lz::hash234::Hash234::get_hash2_pos, crate::lz::hash234::verif_h234::get2)]
#[kani::stub(crate::lz::hash234::Hash234::get_hash3_pos, crate::lz::hash234::verif_h234::get3)]
#[kani::stub(crate::lz::hash234::Hash234::get_hash4_pos, crate::lz::hash234::verif_h234::get4)]
#[kani::stub(crate::lz::hash234::Hash234::update_tables, crate::lz::hash234::verif_h234::update)]
fn c01h_hc4_find_matches_sound() {
    hc4_find_matches_step::<40>(12, 8, 8, 2);
}

// quick variant: smaller window / dictionary / lengths (same obligations, about 1/10 of the SAT time)
//@ {"replay":"model","name":"c01h_hc4_find_matches_lite","props":["C01","C15","C13"],"obligation":"C01-H","stubbing":true,"stubs":["Hash234 table accessors -> environment stub (harness/api_hash234.rs)"],"timeout":1800,"mem_gb":9,"feature_variants":["encoder,optimization"],"functions":["lz::hc4::HC4::find_matches","lz::hc4::HC4::move_pos","lz::hc4::HC4::new","lz::hash234::Hash234::new","lz::hash234::Hash234::calc_hashes","lz::lz_encoder::LZEncoderData::move_pos","lz::extend_match","lz::extend_match_safe"],"bounds":"dictionary 6 (cyclic_size 7), 20-byte window with arbitrary content, match_len_max 5, nice_len 5, depth limit 1; any read_pos/write_pos/finishing/pending, any lz_pos in [cyclic_size, 2^31-3], any cyclic_pos; one arbitrary admissible entry per hash table, one chain slot; unwind 12","assumes":["table invariant T1-T4 (harness header)","no position renormalisation in this step (lz_pos + 1 < 0x7FFFFFFF)"]}
#[kani::proof]
#[kani::unwind(12)]
#[kani::stub(crate::lz::hash234::Hash234::get_hash2_pos, crate::lz::hash234::verif_h234::get2)]
#[kani::stub(crate::lz::hash234::Hash234::get_hash3_pos, crate::lz::hash234::verif_h234::get3)]
#[kani::stub(crate::lz::hash234::Hash234::get_hash4_pos, crate::lz::hash234::verif_h234::get4)]
#[kani::stub(crate::lz::hash234::Hash234::update_tables, crate::lz::hash234::verif_h234::update)]
fn c01h_hc4_find_matches_lite() {
    hc4_find_matches_step::<20>(6, 5, 5, 1);
}

// same with nice_len 4 < match_len_max 8: the early-return-on-nice-length paths
//@ {"replay":"model","name":"c01h_hc4_find_matches_nice4","props":["C01","C15"],"obligation":"C01-H","stubbing":true,"stubs":["Hash234 table accessors -> environment stub (harness/api_hash234.rs)"],"tier":"thorough","timeout":7200,"mem_gb":9,"functions":["lz::hc4::HC4::find_matches"],"bounds":"as c01h_hc4_find_matches_sound with nice_len 4, depth limit 3","assumes":["table invariant T1-T4","no renormalisation in this step"]}
#[kani::proof]
#[kani::unwind(12)]
#[kani::stub(crate::lz::hash234::Hash234::get_hash2_pos, crate::lz::hash234::verif_h234::get2)]
#[kani::stub(crate::lz::hash234::Hash234::get_hash3_pos, crate::lz::hash234::verif_h234::get3)]
#[kani::stub(crate::lz::hash234::Hash234::get_hash4_pos, crate::lz::hash234::verif_h234::get4)]
#[kani::stub(crate::lz::hash234::Hash234::update_tables, crate::lz::hash234::verif_h234::update)]
fn c01h_hc4_find_matches_nice4() {
    hc4_find_matches_step::<40>(12, 8, 4, 3);
}

// C01-H: HC4::skip(n) advances exactly n positions, keeps the window, and leaves tables that satisfy the invariant for the
// last hashed position.
//@ {"replay":"model","name":"c01h_hc4_skip","props":["C01","C13"],"obligation":"C01-H","stubbing":true,"stubs":["Hash234 table accessors -> environment stub (harness/api_hash234.rs)"],"timeout":1500,"mem_gb":9,"functions":["lz::hc4::HC4::skip","lz::hc4::HC4::move_pos"],"bounds":"skip length 0..=3 (symbolic), same state space as c01h_hc4_find_matches_sound; unwind 12","assumes":["table invariant T1-T4","no renormalisation in these steps"]}
#[kani::proof]
#[kani::unwind(12)]
#[kani::stub(crate::lz::hash234::Hash234::get_hash2_pos, crate::lz::hash234::verif_h234::get2)]
#[kani::stub(crate::lz::hash234::Hash234::get_hash3_pos, crate::lz::hash234::verif_h234::get3)]
#[kani::stub(crate::lz::hash234::Hash234::get_hash4_pos, crate::lz::hash234::verif_h234::get4)]
#[kani::stub(crate::lz::hash234::Hash234::update_tables, crate::lz::hash234::verif_h234::update)]
fn c01h_hc4_skip() {
    let (mut d, content, mut mf) = any_hc4::<40>(12, 8, 8, 2);
    kani::assume(mf.lz_pos < 0x7FFF_FFF0);
    crate::lz::hash234::verif_h234::reset();
    let head: i32 = kani::any();
    kani::assume(head >= 0 && head <= mf.lz_pos);
    unsafe {
        crate::lz::hash234::verif_h234::ENTRY[2] = head;
        crate::lz::hash234::verif_h234::MULTI = true;
    }
    let n: usize = kani::any();
    kani::assume(n <= 3);
    let (rp0, lz0, pend0) = (d.read_pos, mf.lz_pos, d.pending_size);
    kani::assume(rp0 + (n as i32) <= d.write_pos);
    mf.skip(&mut d, n);
    assert!(d.read_pos == rp0 + n as i32, "C01-H: skip(n) must advance the window by n bytes");
    let hashed = mf.lz_pos - lz0;
    assert!(hashed >= 0 && hashed as usize + (d.pending_size - pend0) as usize == n, "C01-H: every skipped byte is either hashed or pending");
    unsafe {
        use crate::lz::hash234::verif_h234 as st;
        assert!(st::UPD_CALLS as i32 == hashed, "C01-H: one table update per hashed position");
        if hashed > 0 {
            assert!(st::UPD_POS == mf.lz_pos, "C01-H: tables updated with a position other than the current one");
        }
        if hashed == 1 {
            assert!(mf.chain[mf.cyclic_pos as usize] == head, "C01-H: chain entry of a skipped position is not the previous hash-4 head");
        }
    }
    let k: usize = kani::any();
    kani::assume(k < 40);
    assert!(d.buf[k] == content[k]);
    kani::cover!(n == 3 && hashed == 3, "three positions hashed");
    kani::cover!(d.pending_size > pend0, "a skipped position became pending");
    core::mem::forget(d);
    core::mem::forget(mf);
}

// C01-H / C14: the renormalisation step of HC4::move_pos.  `LZEncoder::normalize` (a loop over 65536-entry tables) is replaced
// by a recorder; the arithmetic around it is real: offset = 0x7FFFFFFF - cyclic_size, lz_pos restarts at cyclic_size, so every
// live entry keeps its distance and every entry that the clamp sets to 0 is stale.
static mut NORM_CALLS: u32 = 0;
static mut NORM_OFFSET: i32 = 0;
static mut NORM_PTRS: [*const i32; 4] = [core::ptr::null(); 4];
static mut NORM_LENS: [usize; 4] = [0; 4];
fn verif_record_normalize(positions: &mut [i32], norm_offset: i32) {
    unsafe {
        if (NORM_CALLS as usize) < 4 {
            NORM_PTRS[NORM_CALLS as usize] = positions.as_ptr();
            NORM_LENS[NORM_CALLS as usize] = positions.len();
        }
        NORM_CALLS += 1;
        NORM_OFFSET = norm_offset;
    }
}

//@ {"replay":"model","name":"c01h_hc4_renormalise_step","props":["C01","C14"],"obligation":"C01-H","timeout":900,"mem_gb":9,"stubbing":true,"functions":["lz::hc4::HC4::move_pos","lz::hash234::Hash234::normalize"],"bounds":"lz_pos = 0x7FFFFFFE before the step; 40-byte window","assumes":["LZEncoder::normalize replaced by a recorder (its element formula is decided by c14c_normalize_*)"],"stubs":["LZEncoder::normalize -> recorder"]}
#[kani::proof]
#[kani::unwind(12)]
#[kani::stub(crate::lz::lz_encoder::LZEncoder::normalize, verif_record_normalize)]
fn c01h_hc4_renormalise_step() {
    let (mut d, content, mut mf) = any_hc4::<40>(12, 8, 8, 2);
    mf.lz_pos = 0x7FFF_FFFE;
    kani::assume(d.write_pos - (d.read_pos + 1) >= 4);
    let cs = mf.cyclic_size;
    let avail = mf.move_pos(&mut d);
    assert!(avail >= 4);
    unsafe {
        assert!(NORM_CALLS == 4, "C01-H: all four tables (hash2, hash3, hash4, chain) must be renormalised");
        assert!(NORM_OFFSET == 0x7FFF_FFFF - cs, "C01-H: renormalisation offset");
        // four DIFFERENT tables, each in full: hash2 (1024), hash3 (65536), hash4 (>= 65536), chain (cyclic_size)
        let p = NORM_PTRS;
        assert!(p[0] != p[1] && p[0] != p[2] && p[0] != p[3] && p[1] != p[2] && p[1] != p[3] && p[2] != p[3],
            "C01-H: a table was renormalised twice (and another one not at all)");
        let l = NORM_LENS;
        let total = l[0] + l[1] + l[2] + l[3];
        assert!(total >= 1024 + 65536 + 65536 + cs as usize, "C01-H: a table was renormalised only in part");
        // an entry e >= offset keeps its distance; an entry below the offset is clamped to 0 and must be stale afterwards
        let e: i32 = kani::any();
        kani::assume(e >= 0 && e < 0x7FFF_FFFF);
        let e2 = if e > NORM_OFFSET { e - NORM_OFFSET } else { 0 };
        if e >= NORM_OFFSET {
            assert!(mf.lz_pos - e2 == 0x7FFF_FFFF - e, "C01-H: renormalisation changed a live distance");
        } else {
            assert!(mf.lz_pos - e2 >= cs, "C01-H: an entry clamped to 0 by renormalisation is still in reach");
        }
    }
    kani::cover!(true, "renormalised");
    core::mem::forget(d);
    core::mem::forget(mf);
}
