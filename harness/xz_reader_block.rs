//@@ {"inject":"src/xz/reader.rs","features":"encoder,xz"}

fn crc32_of(a: &[u8]) -> u32 {
    CRC32.checksum(a)
}

// C04-E: the index at the end of a stream must describe the blocks that were actually decoded: a record whose unpadded or
// uncompressed size differs from the block (blocks swapped / replaced, or an index edited with its CRC fixed up) must not be
// accepted.  The reader is put into the state "inside the first block of a stream whose block started at source position 0"
// (as c07e does): the block's filter chain is replaced by a BoundedReader over the shared source that hands out 6 arbitrary
// bytes, i.e. the block occupies 6 bytes of the source and decodes to 6 bytes; check type None.  Then the REAL read() runs to
// the end of the stream: end of block -> consume_padding -> verify_block_checksum -> prepare_next_block (index indicator)
// -> parse_index_and_footer.  The index holds one record (6 + du, 6 + dv) with a valid CRC.
// (The variant that sends a real block header through prepare_next_block and a real LZMA2Reader chain ran out of memory at
// 9 GB after 1 340 s: every `Box<dyn Read>` call fans out over all reader types of the chain.)
fn index_record_vs_block(du: u8, dv: u8) {
    let d: [u8; 6] = kani::any();
    let mut buf = [0u8; 28];
    let mut i = 0;
    while i < 6 { buf[i] = d[i]; i += 1; }
    // block padding 6 -> 8, no check
    // index: 00 | 01 (one record) | unpadded size | uncompressed size | crc32      (4 bytes: no index padding)
    let ix = [0u8, 1, 6 + du, 6 + dv];
    let c = crc32_of(&ix).to_le_bytes();
    buf[8] = ix[0]; buf[9] = ix[1]; buf[10] = ix[2]; buf[11] = ix[3];
    buf[12] = c[0]; buf[13] = c[1]; buf[14] = c[2]; buf[15] = c[3];
    // footer: crc32 | backward size 1 ((1 + 1) * 4 = 8 index bytes) | flags 00 00 | 'Y' 'Z'
    let body = [1u8, 0, 0, 0, 0, 0];
    let c = crc32_of(&body).to_le_bytes();
    buf[16] = c[0]; buf[17] = c[1]; buf[18] = c[2]; buf[19] = c[3];
    i = 0;
    while i < 6 { buf[20 + i] = body[i]; i += 1; }
    buf[26] = b'Y'; buf[27] = b'Z';
    let mut src = Src::<28>::full(buf);
    let mut r = XZReader::new(&mut src, false);
    r.stream_header = Some(StreamHeader { check_type: CheckType::None });
    r.checksum_calculator = Some(ChecksumCalculator::new(CheckType::None));
    r.blocks_processed = 1;
    r.reader = Box::new(BoundedReader::new(
        SharedReader { inner: Rc::clone(&r.original_reader), compressed_bytes_read: Rc::clone(&r.compressed_bytes_read) },
        6,
    ));
    let mut out = [0u8; 8];
    let n = r.read(&mut out);
    assert!(matches!(n, Ok(6)) && out[0] == d[0] && out[5] == d[5], "C02: block data not handed out");
    let e = r.read(&mut out);
    if du == 0 && dv == 0 {
        assert!(matches!(e, Ok(0)), "C02: well-formed one-block stream refused");
        assert!(r.original_reader.borrow().pos == 28, "C16: reader did not stop exactly after the footer");
    } else {
        assert!(e.is_err(), "C04-E: index record that does not describe the decoded block was accepted");
    }
    kani::cover!(true, "end reached");
    core::mem::forget(r);
}

//@ {"name":"c04e_index_record_describes_block","props":["C04","C02","C16"],"obligation":"C04-E","timeout":1800,"mem_gb":9,"functions":["xz::reader::XZReader::read","xz::reader::XZReader::prepare_next_block","xz::reader::XZReader::consume_padding","xz::reader::XZReader::verify_block_checksum","xz::reader::XZReader::parse_index_and_footer","xz::reader::Index::parse","xz::reader::StreamFooter::parse","xz::reader::BoundedReader::read","xz::reader::SharedReader::read"],"bounds":"one block of 6 arbitrary bytes starting at source position 0 (filter chain = BoundedReader over the shared source), check type None, index with one record carrying the true sizes (6, 6); unwind 10","assumes":["block filter chain replaced by an identity BoundedReader (the chain is not the subject)"],"stubs":["block chain = BoundedReader(SharedReader)"]}
#[kani::proof]
#[kani::unwind(10)]
fn c04e_index_record_describes_block() { index_record_vs_block(0, 0); }

//@ {"name":"c04e_index_record_wrong_unpadded","props":["C04"],"obligation":"C04-E","timeout":1800,"mem_gb":9,"functions":["xz::reader::XZReader::read","xz::reader::XZReader::parse_index_and_footer"],"bounds":"as c04e_index_record_describes_block, the record's unpadded size is 4 too large (CRC-consistent index)","assumes":["block filter chain replaced by an identity BoundedReader"],"stubs":["block chain = BoundedReader(SharedReader)"]}
#[kani::proof]
#[kani::unwind(10)]
fn c04e_index_record_wrong_unpadded() { index_record_vs_block(4, 0); }

//@ {"name":"c04e_index_record_wrong_uncompressed","props":["C04"],"obligation":"C04-E","timeout":1800,"mem_gb":9,"functions":["xz::reader::XZReader::read","xz::reader::XZReader::parse_index_and_footer"],"bounds":"as c04e_index_record_describes_block, the record's uncompressed size is 1 too large (CRC-consistent index)","assumes":["block filter chain replaced by an identity BoundedReader"],"stubs":["block chain = BoundedReader(SharedReader)"]}
#[kani::proof]
#[kani::unwind(10)]
fn c04e_index_record_wrong_uncompressed() { index_record_vs_block(0, 1); }

// C04-A2: an index that lists MORE records than blocks were decoded (blocks deleted from the file, index kept) is an error.
// (c04a_index_count_matches_blocks covers "fewer records than blocks" with an empty index.)
//@ {"name":"c04e_index_more_records_than_blocks","props":["C04","C12"],"obligation":"C04-A","timeout":1800,"mem_gb":9,"functions":["xz::reader::XZReader::read","xz::reader::XZReader::prepare_next_block","xz::reader::XZReader::parse_index_and_footer","xz::reader::Index::parse"],"bounds":"no block decoded; source = index with one (arbitrary non-zero sized) record + valid footer; unwind 10","assumes":[],"stubs":[]}
#[kani::proof]
#[kani::unwind(10)]
fn c04e_index_more_records_than_blocks() {
    let mut buf = [0u8; 20];
    let ix = [0u8, 1, 6, 6];
    let c = crc32_of(&ix).to_le_bytes();
    buf[0] = ix[0]; buf[1] = ix[1]; buf[2] = ix[2]; buf[3] = ix[3];
    buf[4] = c[0]; buf[5] = c[1]; buf[6] = c[2]; buf[7] = c[3];
    let body = [1u8, 0, 0, 0, 0, 0];
    let c = crc32_of(&body).to_le_bytes();
    buf[8] = c[0]; buf[9] = c[1]; buf[10] = c[2]; buf[11] = c[3];
    let mut i = 0;
    while i < 6 { buf[12 + i] = body[i]; i += 1; }
    buf[18] = b'Y'; buf[19] = b'Z';
    let mut src = Src::<20>::full(buf);
    let mut r = XZReader::new(&mut src, false);
    r.stream_header = Some(StreamHeader { check_type: CheckType::None });
    let mut out = [0u8; 4];
    let e = r.read(&mut out);
    assert!(e.is_err(), "C04-A: index lists more records than blocks were decoded, but the stream was accepted");
    kani::cover!(true, "end reached");
    core::mem::forget(r);
}
