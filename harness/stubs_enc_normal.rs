//@@ {"inject":"src/enc/encoder_normal.rs","mod":"verif_stubs_enc_normal","raw":true,"features":"encoder"}
// NormalEncoderMode::new() clones 4096 `Optimum` values in a loop; this builds the same all-default (all-zero) table
// with one memset.  Compared natively with the real constructor by the encoder stub selftest.
#[cfg(any(kani, test))]
#[allow(dead_code)]
impl NormalEncoderMode {
    pub(crate) fn verif_new_zeroed() -> Self {
        let n = Self::OPTS as usize;
        let mut opts: Vec<Optimum> = Vec::with_capacity(n);
        unsafe {
            core::ptr::write_bytes(opts.as_mut_ptr(), 0, n);
            opts.set_len(n);
        }
        Self { opts, opt_cur: 0, opt_end: 0 }
    }

    pub(crate) fn verif_equals(&self, o: &Self) -> bool {
        self.opt_cur == o.opt_cur && self.opt_end == o.opt_end && self.opts.len() == o.opts.len()
            && self.opts.iter().zip(o.opts.iter()).all(|(a, b)| {
                a.state == b.state && a.reps == b.reps && a.price == b.price && a.opt_prev == b.opt_prev
                    && a.back_prev == b.back_prev && a.prev1_is_literal == b.prev1_is_literal
                    && a.has_prev2 == b.has_prev2 && a.opt_prev2 == b.opt_prev2 && a.back_prev2 == b.back_prev2
            })
    }

    pub(crate) fn verif_opts_bytes(&self) -> usize {
        self.opts.len() * core::mem::size_of::<Optimum>()
    }
}
