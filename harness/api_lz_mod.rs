//@@ {"inject":"src/lz/mod.rs","mod":"verif_api_lz_mod","raw":true}
// `extend_match` is private to `lz`; harnesses in other modules use it as the oracle of the match-finder contract.
#[cfg(kani)]
#[allow(dead_code)]
pub(crate) fn verif_extend_match(buf: &[u8], read_pos: i32, current_len: i32, distance: i32, limit: i32) -> i32 {
    extend_match(buf, read_pos, current_len, distance, limit)
}
