//@@ {"inject":"src/xz/writer.rs","features":"encoder,xz","needs":["api_xz_reader","stubs_enc","stubs_enc_normal","stubs_dec"]}

use crate::xz::reader::verif_xz_reader_api as rd;
use crate::{EncodeMode, MFType, Read};

// The check type is CONCRETE per harness: with a symbolic CheckType CBMC has to carry every ChecksumCalculator variant
// through each call (sha2's compression function alone costs several GB; measured OOM at 13 GB).
fn ck(k: u8) -> CheckType {
    match k { 0 => CheckType::None, 1 => CheckType::Crc32, 4 => CheckType::Crc64, _ => CheckType::Sha256 }
}

fn check_size(c: CheckType) -> u64 {
    match c { CheckType::None => 0, CheckType::Crc32 => 4, CheckType::Crc64 => 8, CheckType::Sha256 => 32 }
}

fn opts(check: CheckType, dict: u32) -> XZOptions {
    XZOptions {
        lzma_options: LZMAOptions::new(dict, 0, 0, 0, EncodeMode::Fast, 32, MFType::HC4, 4),
        check_type: check,
        block_size: None,
        filters: Vec::new(),
    }
}

fn crc32_of(a: &[u8]) -> u32 {
    CRC32.checksum(a)
}

// C02-E / C03-B: stream header bytes = spec layout, and the crate's parser accepts them with the same check type.
//@ {"name":"c02e_stream_header_rt","props":["C02","C03"],"obligation":"C02-E","timeout":600,"functions":["xz::writer::XZWriter::new","xz::writer::XZWriter::write_stream_header","xz::reader::StreamHeader::parse"],"bounds":"check type CRC32 (concrete); unwind 14","assumes":[]}
fn stream_header_rt(ct: CheckType) {
    let mut sink = Sink::<16>::new();
    let mut w = XZWriter::new(&mut sink, opts(ct, 4096)).unwrap();
    assert!(w.write_stream_header().is_ok());
    assert!(w.compressed_bytes_written.get() == 12);
    let (bytes, len) = { let s = w.original_writer.borrow(); (s.buf, s.len) };
    assert!(len == 12);
    // xz-file-format 2.1.1: magic FD 37 7A 58 5A 00, flags 00 <check>, CRC32(flags) little endian
    let want = [0xFDu8, 0x37, 0x7A, 0x58, 0x5A, 0x00, 0x00, ct as u8];
    let mut i = 0;
    while i < 8 {
        assert!(bytes[i] == want[i], "C03-B: stream header differs from the format specification");
        i += 1;
    }
    let c = crc32_of(&want[6..8]).to_le_bytes();
    assert!(bytes[8] == c[0] && bytes[9] == c[1] && bytes[10] == c[2] && bytes[11] == c[3]);
    let mut src = Src::<16>::new(bytes, 12);
    let r = rd::parse_stream_header(&mut src);
    assert!(r.is_ok() && r.unwrap() == ct as u8, "C02-E: own stream header not accepted by own parser");
    // writing it twice is a no-op
    assert!(w.write_stream_header().is_ok() && w.compressed_bytes_written.get() == 12);
    kani::cover!(true, "end reached");
    core::mem::forget(w);
}
#[kani::proof]
#[kani::unwind(14)]
fn c02e_stream_header_rt() { stream_header_rt(ck(1)); }
//@ {"name":"c02e_stream_header_rt_crc64","props":["C02","C03"],"obligation":"C02-E","timeout":600,"functions":["xz::writer::XZWriter::new","xz::writer::XZWriter::write_stream_header","xz::reader::StreamHeader::parse"],"bounds":"check type CRC64 (concrete); unwind 14","assumes":[]}
#[kani::proof]
#[kani::unwind(14)]
fn c02e_stream_header_rt_crc64() { stream_header_rt(ck(4)); }
//@ {"name":"c02e_stream_header_rt_none","props":["C02","C03"],"obligation":"C02-E","timeout":600,"functions":["xz::writer::XZWriter::new","xz::writer::XZWriter::write_stream_header","xz::reader::StreamHeader::parse"],"bounds":"check type None (concrete); unwind 14","assumes":[]}
#[kani::proof]
#[kani::unwind(14)]
fn c02e_stream_header_rt_none() { stream_header_rt(ck(0)); }
//@ {"name":"c02e_stream_header_rt_sha256","props":["C02","C03"],"tier":"thorough","obligation":"C02-E","timeout":1800,"mem_gb":13,"functions":["xz::writer::XZWriter::new","xz::writer::XZWriter::write_stream_header","xz::reader::StreamHeader::parse"],"bounds":"check type SHA-256 (concrete); unwind 14","assumes":[]}
#[kani::proof]
#[kani::unwind(14)]
fn c02e_stream_header_rt_sha256() { stream_header_rt(ck(10)); }

fn spec_dict_size(prop: u8) -> u64 {
    if prop == 40 { 0xFFFF_FFFF } else { ((2 | (prop as u64 & 1)) << (prop as u64 / 2 + 11)) }
}

// C02-C: the dictionary-size property written into the block header describes a dictionary that covers the encoder's,
// and is the smallest such property (as the reference encoder chooses).
//@ {"name":"c02c_xz_dict_prop_covers","props":["C02","C03","C19"],"obligation":"C02-C","timeout":900,"functions":["xz::writer::XZWriter::encode_lzma2_dict_size"],"bounds":"dict_size: every u32; unwind 42 (40 candidate properties)","assumes":[]}
#[kani::proof]
#[kani::unwind(42)]
fn c02c_xz_dict_prop_covers() {
    let d: u32 = kani::any();
    let mut sink = Sink::<1>::new();
    let w = XZWriter::new(&mut sink, opts(CheckType::None, 4096)).unwrap();
    match w.encode_lzma2_dict_size(d) {
        Ok(p) => {
            assert!(p <= 40);
            assert!(spec_dict_size(p) >= d as u64, "C02-C: header dictionary smaller than the encoder's");
            assert!(p == 0 || spec_dict_size(p - 1) < d as u64, "C03: not the smallest covering property");
            kani::cover!(p == 40, "4 GiB - 1");
            kani::cover!(p == 39, "3 GiB");
        }
        Err(_) => {
            assert!(d < 4096 || d > 0xC000_0000, "C02-C: representable dictionary size refused");
            kani::cover!(d > 0xC000_0000, "above 3 GiB refused");
        }
    }
    core::mem::forget(w);
}

fn ftype(k: u8) -> FilterType {
    match k {
        0 => FilterType::Delta, 1 => FilterType::BcjX86, 2 => FilterType::BcjPPC, 3 => FilterType::BcjIA64,
        4 => FilterType::BcjARM, 5 => FilterType::BcjARMThumb, 6 => FilterType::BcjSPARC, 7 => FilterType::BcjARM64,
        _ => FilterType::BcjRISCV,
    }
}

fn bcj_alignment(ft: FilterType) -> u32 {
    match ft {
        FilterType::BcjX86 => 1,
        FilterType::BcjIA64 => 16,
        FilterType::BcjARMThumb | FilterType::BcjRISCV => 2,
        _ => 4,
    }
}

fn filter_valid(ft: FilterType, p: u32) -> bool {
    match ft {
        FilterType::Delta => p >= 1 && p <= 256,
        FilterType::LZMA2 => false,
        _ => p % bcj_alignment(ft) == 0,
    }
}

// One pre-filter of CONCRETE type `k` (the type decides the header layout) with a SYMBOLIC property, in front of
// LZMA2 with a concrete 4 KiB dictionary (the dictionary property is covered for every value by c02c / rt_0).
fn block_header_rt(k: Option<u8>, valid_only: bool, dict_symbolic: bool) {
    let dict: u32 = if dict_symbolic { kani::any() } else { 4096 };
    kani::assume(dict >= 4096 && dict <= 0xC000_0000);
    let mut o = opts(CheckType::Crc32, dict);
    let p: u32 = kani::any();
    let nfilters = if k.is_some() { 1 } else { 0 };
    let ft = ftype(k.unwrap_or(0));
    if k.is_some() {
        if valid_only {
            kani::assume(filter_valid(ft, p));
        }
        o.filters.push(FilterConfig { filter_type: ft, property: p });
    }
    let all_valid = k.is_none() || filter_valid(ft, p);
    let mut sink = Sink::<24>::new();
    let w = XZWriter::new(&mut sink, o);
    let mut w = match w {
        Ok(w) => w,
        Err(_) => {
            assert!(!all_valid, "C02-D: valid filter chain refused by XZWriter::new");
            return;
        }
    };
    let res = w.write_block_header();
    if res.is_err() {
        assert!(!all_valid, "C02-D: valid filter chain refused by write_block_header");
        core::mem::forget(w);
        return;
    }
    let (bytes, len) = { let s = w.original_writer.borrow(); (s.buf, s.len) };
    assert!(len % 4 == 0 && len >= 12 && len <= 24);
    assert!(bytes[0] as usize == len / 4 - 1, "C03-B: block header size byte wrong");
    assert!(bytes[1] as usize == nfilters, "C03-B: block flags: filter count / reserved bits");
    let mut src = Src::<24>::new(bytes, len);
    let parsed = rd::parse_block_header(&mut src);
    // C19-B: whatever XZWriter accepted must be accepted by the reader with the same effective parameters
    assert!(parsed.is_ok(), "C19-B: block header written without error is rejected by the crate's own reader");
    let (filters, props, cs, us) = parsed.unwrap().unwrap();
    assert!(src.pos == len);
    assert!(cs.is_none() && us.is_none());
    if nfilters == 1 {
        assert!(filters[0] == Some(ft) && props[0] == p, "C02-D / C19-B: pre-filter parameters not preserved by the header");
    }
    assert!(filters[nfilters] == Some(FilterType::LZMA2));
    assert!(props[nfilters] >= dict, "C02-C: parsed dictionary smaller than the encoder's");
    assert!(filters[nfilters + 1].is_none());
    kani::cover!(nfilters == 0 || p != 0, "header accepted (with a non-default filter property if there is a pre-filter)");
    kani::cover!(true, "end reached");
    core::mem::forget(w);
}

//@ {"name":"c02d_block_header_rt_0","props":["C02","C03"],"obligation":"C02-D","timeout":1800,"mem_gb":9,"functions":["xz::writer::XZWriter::new","xz::writer::XZWriter::write_block_header","xz::writer::XZWriter::encode_lzma2_dict_size","xz::reader::BlockHeader::parse"],"bounds":"no pre-filter; dict_size 4096 (every dictionary size: c02c_xz_dict_prop_covers for the writer, c03d_block_header12_accept for the parser, and the thorough variant); unwind 42","assumes":[]}
#[kani::proof]
#[kani::unwind(42)]
fn c02d_block_header_rt_0() { block_header_rt(None, true, false); }

//@ {"name":"c02d_block_header_rt_0_anydict","props":["C02","C03"],"tier":"thorough","obligation":"C02-D","timeout":3600,"mem_gb":9,"functions":["xz::writer::XZWriter::new","xz::writer::XZWriter::write_block_header","xz::writer::XZWriter::encode_lzma2_dict_size","xz::reader::BlockHeader::parse"],"bounds":"no pre-filter; dict_size any value in [4096, 3 GiB]; unwind 42","assumes":[]}
#[kani::proof]
#[kani::unwind(42)]
fn c02d_block_header_rt_0_anydict() { block_header_rt(None, true, true); }

//@ {"name":"c02d_block_header_rt_delta","props":["C02","C03"],"tier":"thorough","obligation":"C02-D","timeout":1800,"mem_gb":9,"functions":["xz::writer::XZWriter::new","xz::writer::XZWriter::write_block_header","xz::reader::BlockHeader::parse"],"bounds":"one Delta pre-filter, property any VALID u32 (delta 1..=256 / BCJ offset aligned); LZMA2 dict 4096; unwind 42","assumes":["filter parameter inside its documented range"]}
#[kani::proof]
#[kani::unwind(42)]
fn c02d_block_header_rt_delta() { block_header_rt(Some(0), true, false); }
//@ {"name":"c19b_block_header_any_delta","props":["C19"],"tier":"thorough","obligation":"C19-B","timeout":1800,"mem_gb":9,"functions":["xz::writer::XZWriter::new","xz::writer::XZWriter::write_block_header","xz::reader::BlockHeader::parse"],"bounds":"one Delta pre-filter, property ANY u32 (including out-of-range values); LZMA2 dict 4096; unwind 42","assumes":[]}
#[kani::proof]
#[kani::unwind(42)]
fn c19b_block_header_any_delta() { block_header_rt(Some(0), false, false); }

//@ {"name":"c02d_block_header_rt_arm","props":["C02","C03"],"tier":"thorough","obligation":"C02-D","timeout":1800,"mem_gb":9,"functions":["xz::writer::XZWriter::new","xz::writer::XZWriter::write_block_header","xz::reader::BlockHeader::parse"],"bounds":"one BCJ ARM pre-filter, property any VALID u32 (delta 1..=256 / BCJ offset aligned); LZMA2 dict 4096; unwind 42","assumes":["filter parameter inside its documented range"]}
#[kani::proof]
#[kani::unwind(42)]
fn c02d_block_header_rt_arm() { block_header_rt(Some(4), true, false); }
//@ {"name":"c19b_block_header_any_arm","props":["C19"],"tier":"thorough","obligation":"C19-B","timeout":1800,"mem_gb":9,"functions":["xz::writer::XZWriter::new","xz::writer::XZWriter::write_block_header","xz::reader::BlockHeader::parse"],"bounds":"one BCJ ARM pre-filter, property ANY u32 (including out-of-range values); LZMA2 dict 4096; unwind 42","assumes":[]}
#[kani::proof]
#[kani::unwind(42)]
fn c19b_block_header_any_arm() { block_header_rt(Some(4), false, false); }

//@ {"name":"c02d_block_header_rt_x86","props":["C02","C03"],"tier":"thorough","obligation":"C02-D","timeout":1800,"mem_gb":9,"functions":["xz::writer::XZWriter::new","xz::writer::XZWriter::write_block_header","xz::reader::BlockHeader::parse"],"bounds":"one BCJ x86 pre-filter, property any VALID u32 (delta 1..=256 / BCJ offset aligned); LZMA2 dict 4096; unwind 42","assumes":["filter parameter inside its documented range"]}
#[kani::proof]
#[kani::unwind(42)]
fn c02d_block_header_rt_x86() { block_header_rt(Some(1), true, false); }
//@ {"name":"c19b_block_header_any_x86","props":["C19"],"tier":"thorough","obligation":"C19-B","timeout":1800,"mem_gb":9,"functions":["xz::writer::XZWriter::new","xz::writer::XZWriter::write_block_header","xz::reader::BlockHeader::parse"],"bounds":"one BCJ x86 pre-filter, property ANY u32 (including out-of-range values); LZMA2 dict 4096; unwind 42","assumes":[]}
#[kani::proof]
#[kani::unwind(42)]
fn c19b_block_header_any_x86() { block_header_rt(Some(1), false, false); }

//@ {"name":"c02d_block_header_rt_ia64","props":["C02","C03"],"tier":"thorough","obligation":"C02-D","timeout":1800,"mem_gb":9,"functions":["xz::writer::XZWriter::new","xz::writer::XZWriter::write_block_header","xz::reader::BlockHeader::parse"],"bounds":"one BCJ IA-64 pre-filter, property any VALID u32 (delta 1..=256 / BCJ offset aligned); LZMA2 dict 4096; unwind 42","assumes":["filter parameter inside its documented range"]}
#[kani::proof]
#[kani::unwind(42)]
fn c02d_block_header_rt_ia64() { block_header_rt(Some(3), true, false); }
//@ {"name":"c19b_block_header_any_ia64","props":["C19"],"tier":"thorough","obligation":"C19-B","timeout":1800,"mem_gb":9,"functions":["xz::writer::XZWriter::new","xz::writer::XZWriter::write_block_header","xz::reader::BlockHeader::parse"],"bounds":"one BCJ IA-64 pre-filter, property ANY u32 (including out-of-range values); LZMA2 dict 4096; unwind 42","assumes":[]}
#[kani::proof]
#[kani::unwind(42)]
fn c19b_block_header_any_ia64() { block_header_rt(Some(3), false, false); }

//@ {"name":"c02d_block_header_rt_thumb","props":["C02","C03"],"tier":"thorough","obligation":"C02-D","timeout":1800,"mem_gb":9,"functions":["xz::writer::XZWriter::new","xz::writer::XZWriter::write_block_header","xz::reader::BlockHeader::parse"],"bounds":"one BCJ ARM-Thumb pre-filter, property any VALID u32 (delta 1..=256 / BCJ offset aligned); LZMA2 dict 4096; unwind 42","assumes":["filter parameter inside its documented range"]}
#[kani::proof]
#[kani::unwind(42)]
fn c02d_block_header_rt_thumb() { block_header_rt(Some(5), true, false); }
//@ {"name":"c19b_block_header_any_thumb","props":["C19"],"tier":"thorough","obligation":"C19-B","timeout":1800,"mem_gb":9,"functions":["xz::writer::XZWriter::new","xz::writer::XZWriter::write_block_header","xz::reader::BlockHeader::parse"],"bounds":"one BCJ ARM-Thumb pre-filter, property ANY u32 (including out-of-range values); LZMA2 dict 4096; unwind 42","assumes":[]}
#[kani::proof]
#[kani::unwind(42)]
fn c19b_block_header_any_thumb() { block_header_rt(Some(5), false, false); }

//@ {"name":"c02d_block_header_rt_riscv","props":["C02","C03"],"tier":"thorough","obligation":"C02-D","timeout":1800,"mem_gb":9,"functions":["xz::writer::XZWriter::new","xz::writer::XZWriter::write_block_header","xz::reader::BlockHeader::parse"],"bounds":"one BCJ RISC-V pre-filter, property any VALID u32 (delta 1..=256 / BCJ offset aligned); LZMA2 dict 4096; unwind 42","assumes":["filter parameter inside its documented range"]}
#[kani::proof]
#[kani::unwind(42)]
fn c02d_block_header_rt_riscv() { block_header_rt(Some(8), true, false); }
//@ {"name":"c19b_block_header_any_riscv","props":["C19"],"tier":"thorough","obligation":"C19-B","timeout":1800,"mem_gb":9,"functions":["xz::writer::XZWriter::new","xz::writer::XZWriter::write_block_header","xz::reader::BlockHeader::parse"],"bounds":"one BCJ RISC-V pre-filter, property ANY u32 (including out-of-range values); LZMA2 dict 4096; unwind 42","assumes":[]}
#[kani::proof]
#[kani::unwind(42)]
fn c19b_block_header_any_riscv() { block_header_rt(Some(8), false, false); }

//@ {"name":"c02d_block_header_rt_ppc","props":["C02","C03"],"tier":"thorough","obligation":"C02-D","timeout":1800,"mem_gb":9,"functions":["xz::writer::XZWriter::new","xz::writer::XZWriter::write_block_header","xz::reader::BlockHeader::parse"],"bounds":"one BCJ PowerPC pre-filter, property any VALID u32 (delta 1..=256 / BCJ offset aligned); LZMA2 dict 4096; unwind 42","assumes":["filter parameter inside its documented range"]}
#[kani::proof]
#[kani::unwind(42)]
fn c02d_block_header_rt_ppc() { block_header_rt(Some(2), true, false); }
//@ {"name":"c19b_block_header_any_ppc","props":["C19"],"tier":"thorough","obligation":"C19-B","timeout":1800,"mem_gb":9,"functions":["xz::writer::XZWriter::new","xz::writer::XZWriter::write_block_header","xz::reader::BlockHeader::parse"],"bounds":"one BCJ PowerPC pre-filter, property ANY u32 (including out-of-range values); LZMA2 dict 4096; unwind 42","assumes":[]}
#[kani::proof]
#[kani::unwind(42)]
fn c19b_block_header_any_ppc() { block_header_rt(Some(2), false, false); }

//@ {"name":"c02d_block_header_rt_sparc","props":["C02","C03"],"tier":"thorough","obligation":"C02-D","timeout":1800,"mem_gb":9,"functions":["xz::writer::XZWriter::new","xz::writer::XZWriter::write_block_header","xz::reader::BlockHeader::parse"],"bounds":"one BCJ SPARC pre-filter, property any VALID u32 (delta 1..=256 / BCJ offset aligned); LZMA2 dict 4096; unwind 42","assumes":["filter parameter inside its documented range"]}
#[kani::proof]
#[kani::unwind(42)]
fn c02d_block_header_rt_sparc() { block_header_rt(Some(6), true, false); }
//@ {"name":"c19b_block_header_any_sparc","props":["C19"],"tier":"thorough","obligation":"C19-B","timeout":1800,"mem_gb":9,"functions":["xz::writer::XZWriter::new","xz::writer::XZWriter::write_block_header","xz::reader::BlockHeader::parse"],"bounds":"one BCJ SPARC pre-filter, property ANY u32 (including out-of-range values); LZMA2 dict 4096; unwind 42","assumes":[]}
#[kani::proof]
#[kani::unwind(42)]
fn c19b_block_header_any_sparc() { block_header_rt(Some(6), false, false); }

//@ {"name":"c02d_block_header_rt_arm64","props":["C02","C03"],"tier":"thorough","obligation":"C02-D","timeout":1800,"mem_gb":9,"functions":["xz::writer::XZWriter::new","xz::writer::XZWriter::write_block_header","xz::reader::BlockHeader::parse"],"bounds":"one BCJ ARM64 pre-filter, property any VALID u32 (delta 1..=256 / BCJ offset aligned); LZMA2 dict 4096; unwind 42","assumes":["filter parameter inside its documented range"]}
#[kani::proof]
#[kani::unwind(42)]
fn c02d_block_header_rt_arm64() { block_header_rt(Some(7), true, false); }
//@ {"name":"c19b_block_header_any_arm64","props":["C19"],"tier":"thorough","obligation":"C19-B","timeout":1800,"mem_gb":9,"functions":["xz::writer::XZWriter::new","xz::writer::XZWriter::write_block_header","xz::reader::BlockHeader::parse"],"bounds":"one BCJ ARM64 pre-filter, property ANY u32 (including out-of-range values); LZMA2 dict 4096; unwind 42","assumes":[]}
#[kani::proof]
#[kani::unwind(42)]
fn c19b_block_header_any_arm64() { block_header_rt(Some(7), false, false); }

// C19: more than three pre-filters are refused, three are accepted.
//@ {"name":"c19b_filter_count_limit","props":["C19","C02"],"obligation":"C19-B","timeout":600,"functions":["xz::writer::XZWriter::new"],"bounds":"0..=5 delta pre-filters (count symbolic)","assumes":[]}
#[kani::proof]
#[kani::unwind(8)]
fn c19b_filter_count_limit() {
    let n: usize = kani::any();
    kani::assume(n <= 5);
    let mut o = opts(CheckType::None, 4096);
    let mut i = 0;
    while i < n {
        o.filters.push(FilterConfig { filter_type: FilterType::Delta, property: 1 });
        i += 1;
    }
    let mut sink = Sink::<1>::new();
    let r = XZWriter::new(&mut sink, o);
    assert!(r.is_ok() == (n <= 3), "C19-B: filter count limit");
    kani::cover!(n == 3, "three pre-filters accepted");
    kani::cover!(n == 4, "four refused");
    if let Ok(w) = r { core::mem::forget(w); }
}

// C18-A: block size option is raised to the dictionary size, for every value.
//@ {"name":"c18a_block_size_clamp","props":["C18","C19"],"obligation":"C18-A","timeout":600,"functions":["xz::writer::XZWriter::new"],"bounds":"block_size: every non-zero u64; dict_size: every u32","assumes":[]}
#[kani::proof]
fn c18a_block_size_clamp() {
    let bs: u64 = kani::any();
    kani::assume(bs != 0);
    let dict: u32 = kani::any();
    let mut o = opts(CheckType::None, dict);
    o.block_size = NonZeroU64::new(bs);
    let mut sink = Sink::<1>::new();
    let w = XZWriter::new(&mut sink, o).unwrap();
    let got = w.options.block_size.unwrap().get();
    assert!(got >= dict as u64 && got >= bs && (got == bs || got == dict as u64));
    kani::cover!(bs < dict as u64, "raised to the dictionary size");
    core::mem::forget(w);
}

// C02-E / C03-B: index + footer for 0 or 1 records: bytes parse back to the same records, backward size = index size.
fn index_footer_rt(nrec: usize, small: bool) {
    let ct = ck(1);
    let mut sink = Sink::<48>::new();
    let mut w = XZWriter::new(&mut sink, opts(ct, 4096)).unwrap();
    let u: u64 = kani::any();
    let v: u64 = kani::any();
    kani::assume(u >= 1 && u <= u64::MAX / 2 && v <= u64::MAX / 2);
    if small {
        kani::assume(u < (1 << 14) && v < (1 << 14)); // at most two-byte multibyte integers
    }
    if nrec == 1 {
        w.index_records.push(IndexRecord { unpadded_size: u, uncompressed_size: v });
    }
    assert!(w.write_index().is_ok());
    let index_len = w.compressed_bytes_written.get() as usize;
    assert!(index_len % 4 == 0 && index_len >= 8, "C03-B: index size must be a multiple of four");
    assert!(w.write_stream_footer().is_ok());
    let (bytes, len) = { let s = w.original_writer.borrow(); (s.buf, s.len) };
    assert!(len == index_len + 12);
    assert!(bytes[0] == 0, "index indicator");
    let mut src = Src::<48>::new(bytes, len);
    src.pos = 1; // BlockHeader::parse has consumed the indicator byte
    let ix = rd::parse_index(&mut src);
    assert!(ix.is_ok(), "C02-E: own index rejected by own parser");
    let (n, k, a, _) = ix.unwrap();
    assert!(n == nrec as u64 && k == nrec);
    if nrec == 1 {
        assert!(a.0 == u && a.1 == v, "C02-E: index record not preserved");
    }
    assert!(src.pos == index_len);
    let ft = rd::parse_footer(&mut src);
    assert!(ft.is_ok(), "C02-E: own stream footer rejected by own parser");
    let (backward, flags) = ft.unwrap();
    assert!(src.pos == len);
    assert!((backward as usize + 1) * 4 == index_len, "C03-B: backward size must describe the index size");
    assert!(flags[0] == 0 && flags[1] == ct as u8);
    assert!(bytes[len - 2] == b'Y' && bytes[len - 1] == b'Z');
    kani::cover!(nrec == 0 || small || u > (1 << 56), "index accepted (nine-byte integer in the full-width variant)");
    kani::cover!(true, "end reached");
    core::mem::forget(w);
}

//@ {"name":"c02e_index_footer_rt_0","props":["C02","C03"],"obligation":"C02-E","timeout":1200,"mem_gb":9,"functions":["xz::writer::XZWriter::write_index","xz::writer::XZWriter::write_stream_footer","xz::reader::Index::parse","xz::reader::StreamFooter::parse"],"bounds":"no records; check type symbolic; unwind 12","assumes":[]}
#[kani::proof]
#[kani::unwind(12)]
fn c02e_index_footer_rt_0() { index_footer_rt(0, true); }

//@ {"name":"c02e_index_footer_rt_1_small","props":["C02","C03"],"tier":"thorough","obligation":"C02-E","timeout":1800,"mem_gb":9,"functions":["xz::writer::XZWriter::write_index","xz::writer::XZWriter::write_stream_footer","xz::reader::Index::parse","xz::reader::StreamFooter::parse"],"bounds":"one record, unpadded size any value in [1, 2^14), uncompressed size any value < 2^14 (1-2 byte multibyte integers); check type CRC32; unwind 12","assumes":[]}
#[kani::proof]
#[kani::unwind(12)]
fn c02e_index_footer_rt_1_small() { index_footer_rt(1, true); }

//@ {"name":"c02e_index_footer_rt_1","props":["C02","C03"],"tier":"thorough","obligation":"C02-E","timeout":3600,"mem_gb":13,"functions":["xz::writer::XZWriter::write_index","xz::writer::XZWriter::write_stream_footer","xz::reader::Index::parse","xz::reader::StreamFooter::parse"],"bounds":"one record, unpadded size any value in [1, 2^63), uncompressed size any value < 2^63; check type symbolic; unwind 12","assumes":[]}
#[kani::proof]
#[kani::unwind(12)]
fn c02e_index_footer_rt_1() { index_footer_rt(1, false); }

// C02-F: a writer that is finished without any write produces the canonical empty stream, and the crate's own reader
// decodes that stream to zero bytes.  Split in two halves that meet at the canonical 32-byte string (header + empty
// index + footer): in one harness CBMC does not constant-fold the writer's output and then walks the reader's
// block-header parser on "symbolic" bytes (> 40 min); each half alone is over concrete bytes.
fn canonical_empty_stream(ct: u8) -> [u8; 32] {
    let mut b = [0u8; 32];
    let magic = [0xFDu8, 0x37, 0x7A, 0x58, 0x5A, 0x00];
    let mut i = 0;
    while i < 6 { b[i] = magic[i]; i += 1; }
    b[6] = 0; b[7] = ct;
    let c = crc32_of(&[0u8, ct]).to_le_bytes();
    b[8] = c[0]; b[9] = c[1]; b[10] = c[2]; b[11] = c[3];
    // index: indicator 00, count 00, padding 00 00, crc32 of those four bytes
    let ic = crc32_of(&[0u8, 0, 0, 0]).to_le_bytes();
    b[16] = ic[0]; b[17] = ic[1]; b[18] = ic[2]; b[19] = ic[3];
    // footer: crc32 of (backward size = 1, flags), backward size, flags, "YZ"
    let body = [1u8, 0, 0, 0, 0, ct];
    let fc = crc32_of(&body).to_le_bytes();
    b[20] = fc[0]; b[21] = fc[1]; b[22] = fc[2]; b[23] = fc[3];
    i = 0;
    while i < 6 { b[24 + i] = body[i]; i += 1; }
    b[30] = b'Y'; b[31] = b'Z';
    b
}

//@ {"name":"c02f_xz_empty_file_writer","props":["C02","C03","C19"],"obligation":"C02-F","timeout":1800,"mem_gb":9,"functions":["xz::writer::XZWriter::new","xz::writer::XZWriter::finish","xz::writer::XZWriter::write_index","xz::writer::XZWriter::write_stream_footer"],"bounds":"no write call; check type CRC32 (concrete); unwind 14","assumes":[]}
#[kani::proof]
#[kani::unwind(14)]
fn c02f_xz_empty_file_writer() {
    let mut sink = Sink::<96>::new();
    let w = XZWriter::new(&mut sink, opts(ck(1), 4096)).unwrap();
    let fin = w.finish();
    assert!(fin.is_ok());
    core::mem::forget(fin);
    // reference layout of an empty .xz file: 12 (header) + 8 (empty index) + 12 (footer)
    assert!(sink.len == 32, "C02-F / C03: an empty stream must be header + empty index + footer (32 bytes)");
    let want = canonical_empty_stream(1);
    let i: usize = kani::any();
    kani::assume(i < 32);
    assert!(sink.buf[i] == want[i], "C02-F / C03: empty stream differs from the canonical empty .xz file");
    kani::cover!(true, "end reached");
}

//@ {"name":"c02f_xz_empty_file_reader","props":["C02","C12"],"no_inputs":true,"obligation":"C02-F","timeout":1800,"mem_gb":9,"functions":["xz::reader::XZReader::read","xz::reader::XZReader::prepare_next_block","xz::reader::XZReader::parse_index_and_footer"],"bounds":"the canonical 32-byte empty stream, check type symbolic over None/CRC32/CRC64 ids in the flags (bytes concrete per id); one read call; unwind 14","assumes":[]}
#[kani::proof]
#[kani::unwind(14)]
fn c02f_xz_empty_file_reader() {
    let bytes = canonical_empty_stream(1);
    let mut src = Src::<32>::full(bytes);
    let mut r = crate::xz::XZReader::new(&mut src, false);
    let mut out = [0u8; 4];
    let n = r.read(&mut out);
    assert!(matches!(n, Ok(0)), "C02-F: the canonical empty XZ file is not decoded to empty by XZReader");
    core::mem::forget(r);
    assert!(src.pos == 32);
    kani::cover!(true, "end reached");
}

// ---------------------------------------------------------------------------------------------- block accounting

struct StubStage {
    counter: Rc<Cell<u64>>,
    tail: u64,
}

impl Write for StubStage {
    fn write(&mut self, b: &[u8]) -> Result<usize> { Ok(b.len()) }
    fn flush(&mut self) -> Result<()> { Ok(()) }
}

impl FinishableWriter for StubStage {
    // "emits" `tail` compressed bytes: only the shared byte counter is advanced (writing a symbolic number of bytes
    // into the sink turns every later sink access into an array-theory problem: measured 10 GB / > 6 min)
    fn finish(self: Box<Self>) -> Result<()> {
        self.counter.set(self.counter.get() + self.tail);
        Ok(())
    }
}

// C03-A (second half): finish_current_block records unpadded size = header + compressed data + check (xz-file-format
// 4.3), pads the block to a multiple of four and records the uncompressed byte count.
//@ {"name":"c03a_unpadded_size_accounting","props":["C03","C02"],"obligation":"C03-A","timeout":1800,"mem_gb":13,"functions":["xz::writer::XZWriter::finish_current_block","xz::writer::XZWriter::add_padding","xz::writer::XZWriter::write_block_checksum","xz::writer::XZWriter::get_checksum_size"],"bounds":"block header size in {12,16,20} (symbolic), compressed payload 1..=9 bytes (symbolic) produced by a stub stage on finish, check type CRC32 (concrete), uncompressed count any u64 < 2^62","assumes":["the LZMA2 stage is replaced by a stub that emits `tail` bytes on finish (the real stage is not executable under CBMC)"],"stubs":["FinishableWriter stage stub"]}
#[kani::proof]
#[kani::unwind(12)]
fn c03a_unpadded_size_accounting() {
    let ct = ck(1);
    let mut sink = Sink::<64>::new();
    let mut w = XZWriter::new(&mut sink, opts(ct, 4096)).unwrap();
    let hdr: u64 = kani::any();
    kani::assume(hdr == 12 || hdr == 16 || hdr == 20);
    let tail: usize = kani::any();
    kani::assume(tail >= 1 && tail <= 9);
    let unc: u64 = kani::any();
    kani::assume(unc < (1 << 62));
    // state as left by prepare_next_block: stream header (12) and block header (hdr) are on the wire
    w.compressed_bytes_written.set(12 + hdr);
    let block_start_on_wire = 12u64;
    w.current_block_start_pos = block_start_on_wire; // where the block (its header) begins
    w.block_uncompressed_size = unc;
    w.writer = Box::new(StubStage { counter: Rc::clone(&w.compressed_bytes_written), tail: tail as u64 });
    assert!(w.finish_current_block().is_ok());
    let total = w.compressed_bytes_written.get();
    let rec = &w.index_records[0];
    assert!(w.index_records.len() == 1);
    assert!(rec.uncompressed_size == unc);
    assert!(rec.unpadded_size == hdr + tail as u64 + check_size(ct), "C03-A: unpadded size must be header + compressed + check");
    let padded = (rec.unpadded_size + 3) & !3;
    assert!(total - block_start_on_wire == padded, "C03-A: block must be padded to a multiple of four");
    kani::cover!(tail % 4 == 1, "three padding bytes");
    kani::cover!(tail % 4 == 0, "no padding");
    core::mem::forget(w);
}

struct CountingStage {
    accepted: Rc<Cell<u64>>,
}

impl Write for CountingStage {
    fn write(&mut self, b: &[u8]) -> Result<usize> {
        self.accepted.set(self.accepted.get() + b.len() as u64);
        Ok(b.len())
    }
    fn flush(&mut self) -> Result<()> { Ok(()) }
}

impl FinishableWriter for CountingStage {
    fn finish(self: Box<Self>) -> Result<()> {
        // starting a new block would build a real LZMA2 stage: cut the path here (recorded in the evidence)
        kani::assume(false);
        Ok(())
    }
}

// C18-A: no write may push the current block beyond the configured block size.
//@ {"name":"c18a_xz_block_size_respected","props":["C18"],"obligation":"C18-A","timeout":1500,"mem_gb":9,"functions":["xz::writer::XZWriter::write","xz::writer::XZWriter::should_finish_block"],"bounds":"block_size B in 4096..=4104, bytes already in the block s in 1..B, write length 0..=8 (all symbolic); check type None","assumes":["writer is mid-block; its stage chain is replaced by a counting stub that accepts every byte","paths that finish the block and start a new one are cut at the stub's finish()"],"stubs":["CountingStage"]}
#[kani::proof]
#[kani::unwind(12)]
fn c18a_xz_block_size_respected() {
    let b: u64 = kani::any();
    kani::assume(b >= 4096 && b <= 4104);
    let mut o = opts(CheckType::None, 4096);
    o.block_size = NonZeroU64::new(b);
    let mut sink = Sink::<16>::new();
    let mut w = XZWriter::new(&mut sink, o).unwrap();
    w.header_written = true;
    let s: u64 = kani::any();
    kani::assume(s >= 1 && s < b);
    w.block_uncompressed_size = s;
    let acc = Rc::new(Cell::new(0u64));
    w.writer = Box::new(CountingStage { accepted: Rc::clone(&acc) });
    let data = [0u8; 8];
    let n: usize = kani::any();
    kani::assume(n <= 8);
    kani::cover!(s + n as u64 > b, "write straddles the block limit");
    let r = w.write(&data[..n]);
    assert!(s + acc.get() <= b, "C18-A: a block received more uncompressed data than the configured block size");
    if let Ok(k) = r {
        assert!(k <= n);
    }
    kani::cover!(s + n as u64 <= b && n > 0, "write fits");
    core::mem::forget(w);
}

// C03-A (first half): prepare_next_block must remember where the block STARTS (before its header), because the index
// records header + compressed data + check as the block's unpadded size.
//@ {"name":"c03a_block_start_before_header","no_inputs":true,"props":["C03","C02"],"obligation":"C03-A","timeout":2400,"mem_gb":13,"stubbing":true,"functions":["xz::writer::XZWriter::prepare_next_block","xz::writer::XZWriter::write_block_header","enc::lzma2_writer::LZMA2Writer::new"],"bounds":"no pre-filter, dict 4096, check type CRC32 (concrete); unwind 42","assumes":["LZMAEncoder::new stubbed (verif_cheap_encoder)"],"stubs":["LZMAEncoder::new -> verif_cheap_encoder"]}
#[kani::proof]
#[kani::unwind(42)]
#[kani::stub(crate::enc::encoder::LZMAEncoder::new, crate::enc::encoder::verif_stubs_enc::verif_cheap_encoder)]
fn c03a_block_start_before_header() {
    let ct = ck(1);
    let mut sink = Sink::<32>::new();
    let mut w = XZWriter::new(&mut sink, opts(ct, 4096)).unwrap();
    assert!(w.write_stream_header().is_ok());
    let before = w.compressed_bytes_written.get();
    assert!(w.prepare_next_block().is_ok());
    let after = w.compressed_bytes_written.get();
    assert!(after - before == 12, "block header for a single LZMA2 filter is 12 bytes");
    assert!(w.current_block_start_pos == before, "C03-A: block start recorded after the block header: the index's unpadded size will omit the header");
    kani::cover!(true, "end reached");
    core::mem::forget(w);
}

// C19-B: XZWriter::new accepts a pre-filter exactly when its parameter is inside the documented range (delta distance
// 1..=256, BCJ start offset aligned): out-of-range values are refused at construction, never written into a header.
//@ {"name":"c19b_prefilter_validation","props":["C19","C02"],"obligation":"C19-B","timeout":900,"functions":["xz::writer::XZWriter::new"],"bounds":"filter type symbolic over the 9 pre-filter types; property any u32","assumes":[]}
#[kani::proof]
#[kani::unwind(6)]
fn c19b_prefilter_validation() {
    let k: u8 = kani::any();
    kani::assume(k < 9);
    let ft = ftype(k);
    let p: u32 = kani::any();
    let mut o = opts(CheckType::None, 4096);
    o.filters.push(FilterConfig { filter_type: ft, property: p });
    let mut sink = Sink::<1>::new();
    let r = XZWriter::new(&mut sink, o);
    assert!(r.is_ok() == filter_valid(ft, p), "C19-B: pre-filter parameter accepted/refused against its documented range");
    kani::cover!(r.is_err() && k == 0, "delta distance refused");
    kani::cover!(r.is_err() && k == 3, "unaligned IA-64 offset refused");
    kani::cover!(r.is_ok() && p != 0, "valid non-default parameter accepted");
    if let Ok(w) = r { core::mem::forget(w); }
}

// C05-D: a sink that accepts short writes: the XZ writer's count of compressed bytes (it drives block padding and the
// index) must equal the bytes that really reached the sink, and the stream header must arrive complete and in order.
//@ {"name":"c05d_xz_writer_short_write_counter","props":["C05","C02"],"obligation":"C05-D","timeout":900,"mem_gb":9,"functions":["xz::writer::XZWriter::write_stream_header","xz::writer::SharedWriter::write","no_std::Write::write_all"],"bounds":"sink accepts at most 5 bytes per call and reports Interrupted once at call index 0..=4 (symbolic); check type CRC32; unwind 16","assumes":[]}
#[kani::proof]
#[kani::unwind(16)]
fn c05d_xz_writer_short_write_counter() {
    let mut sink = FaultySink::<16>::new();
    sink.chunk = 5; // 12-byte header arrives as 5 + 1(..) pieces; concrete to keep the retry loops cheap (symbolic: 460 s)
    sink.intr_at = kani::any();
    kani::assume(sink.intr_at <= 4);
    let mut w = XZWriter::new(&mut sink, opts(ck(1), 4096)).unwrap();
    assert!(w.write_stream_header().is_ok(), "C05-D: short writes / Interrupted must be retried");
    let (bytes, len) = { let s = w.original_writer.borrow(); (s.buf, s.len) };
    assert!(len == 12, "C05-D: stream header incomplete after short writes");
    assert!(w.compressed_bytes_written.get() == 12, "C05-D: compressed-byte counter disagrees with the bytes the sink accepted");
    assert!(bytes[0] == 0xFD && bytes[5] == 0 && bytes[7] == 1);
    kani::cover!(w.original_writer.borrow().calls > 4, "several short writes");
    core::mem::forget(w);
}
