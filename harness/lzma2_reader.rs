//@@ {"inject":"src/lzma2_reader.rs","features":"encoder","needs":["stubs_dec"],"stubbing":true,"stubs":["LZMADecoder::new replaced by verif_havoc_decoder (same coder tables from literals; literal sub-decoder contents unconstrained, never read)"]}

use crate::decoder::verif_stubs_dec::*;

// C06-A / C17-C: constructing a reader for every declared dictionary size (XZ hands over up to 0xFFFFFFFF): no panic,
// and the dictionary buffer is at least as large as declared, at most 15 bytes larger.
//@ {"name":"c06a_lzma2_new_any_dict","props":["C06","C17"],"obligation":"C06-A","timeout":600,"stubbing":false,"functions":["lzma2_reader::LZMA2Reader::new","lzma2_reader::get_dict_size","lz::LZDecoder::new","range_dec::RangeDecoder::new_buffer"],"bounds":"dict_size: every u32; no preset dictionary","assumes":[]}
#[kani::proof]
fn c06a_lzma2_new_any_dict() {
    let d: u32 = kani::any();
    let r = LZMA2Reader::new(Src::<1>::full([0]), d, None);
    assert!(r.lz.verif_buf_size() as u64 >= d as u64, "C06-A: dictionary smaller than declared");
    assert!(r.lz.verif_buf_size() as u64 <= d as u64 + 15);
    assert!(r.need_dict_reset && r.need_props);
    kani::cover!(d == u32::MAX, "largest XZ dictionary property");
    kani::cover!(d == 0, "zero");
    core::mem::forget(r);
}

// C17-C: the LZMA2 decoder estimator is total and covers the dictionary + the 64 KiB chunk buffer.
//@ {"name":"c17c_lzma2_memory_usage","props":["C17","C06"],"obligation":"C17-C","timeout":600,"stubbing":false,"functions":["lzma2_reader::get_memory_usage","lzma2_reader::get_dict_size"],"bounds":"dict_size: every u32","assumes":[]}
#[kani::proof]
fn c17c_lzma2_memory_usage() {
    let d: u32 = kani::any();
    let kib = get_memory_usage(d) as u64;
    // bytes really allocated by LZMA2Reader::new: dictionary (rounded to 16) + chunk buffer (65531) + decoder tables (< 40 KiB for lc+lp <= 4)
    let dict = ((d as u64) + 15) & !15;
    let need = dict + 65531;
    assert!(kib * 1024 + 1024 > need, "C17-C: estimator below the buffers the reader allocates");
    assert!(kib * 1024 <= need + 64 * 1024, "C17-C: estimator not within a small constant of the real need");
    kani::cover!(d >= 0xFFFF_FFF1, "rounding region at the top");
}

// the source is kept OUTSIDE the reader (a source embedded in the ~30 KB reader struct makes every read at a symbolic
// position a whole-struct byte operation for CBMC)
fn lzma2_on<'a, const N: usize>(src: &'a mut Src<N>, need_props: bool, need_dict_reset: bool) -> LZMA2Reader<&'a mut Src<N>> {
    let mut r = LZMA2Reader::new(src, 4096, None);
    r.need_props = need_props;
    r.need_dict_reset = need_dict_reset;
    r
}

// Reference model of one LZMA2 chunk header (xz-file-format / liblzma lzma2_decoder.c):
//   returns (ok, is_lzma, uncompressed, compressed, header_len)
fn model_chunk(b: &[u8; 12], need_props: bool, need_dict_reset: bool) -> (bool, bool, usize, usize, usize) {
    let c = b[0];
    if c == 0 {
        return (true, false, 0, 0, 1);
    }
    let dict_reset = c >= 0xE0 || c == 1;
    if !dict_reset && need_dict_reset {
        return (false, false, 0, 0, 0);
    }
    if c >= 0x80 {
        let un = (((c & 0x1F) as usize) << 16) + (((b[1] as usize) << 8) | b[2] as usize) + 1;
        let co = (((b[3] as usize) << 8) | b[4] as usize) + 1;
        let mut hl = 5;
        let need_props_now = if dict_reset { true } else { need_props };
        if c >= 0xC0 {
            let p = b[5];
            if p > 224 {
                return (false, true, un, co, 0);
            }
            let pb = p / 45;
            let lp = (p % 45) / 9;
            let lc = p % 9;
            if lc + lp > 4 {
                return (false, true, un, co, 0);
            }
            hl = 6;
        } else if need_props_now {
            return (false, true, un, co, 0);
        }
        (true, true, un, co, hl)
    } else if c > 2 {
        (false, false, 0, 0, 0)
    } else {
        let un = (((b[1] as usize) << 8) | b[2] as usize) + 1;
        (true, false, un, 0, 3)
    }
}

// C06-A / C16-B / C04-E / C03-C: one chunk header from arbitrary bytes and arbitrary reader flags: no panic; accepted exactly
// when the reference model accepts; sizes as in the model; consumes exactly header + compressed payload.
//@ {"name":"c06a_lzma2_chunk_header_any12","props":["C06","C16","C01","C04","C03"],"obligation":"C06-A","timeout":900,"functions":["lzma2_reader::LZMA2Reader::decode_chunk_header","lzma2_reader::LZMA2Reader::decode_props","range_dec::RangeDecoder::prepare","lz::LZDecoder::reset"],"bounds":"any 12 source bytes, source length 0..=12 symbolic (truncation); need_props / need_dict_reset symbolic; dictionary 4096; unwind 14","assumes":["compressed payload longer than the 12-byte source ends in EOF (covered by the truncation clause)"]}
#[kani::proof]
#[kani::unwind(14)]
#[kani::stub(crate::decoder::LZMADecoder::new, crate::decoder::verif_stubs_dec::verif_havoc_decoder)]
fn c06a_lzma2_chunk_header_any12() {
    let mut src = Src::<12>::any();
    let b = src.buf;
    let n = src.len;
    let need_props: bool = kani::any();
    let need_dict_reset: bool = kani::any();
    let mut r = lzma2_on(&mut src, need_props, need_dict_reset);
    let res = r.decode_chunk_header();
    let (ok, is_lzma, un, co, hl) = model_chunk(&b, need_props, need_dict_reset);
    let consumed = r.inner.pos;
    match res {
        Ok(()) => {
            assert!(n >= 1);
            assert!(ok, "C04-E: chunk header the format forbids was accepted");
            if b[0] == 0 {
                assert!(r.end_reached && consumed == 1);
            } else {
                assert!(!r.end_reached);
                assert!(r.is_lzma_chunk == is_lzma);
                assert!(r.uncompressed_size == un, "C01-E: uncompressed size decoded differently from the format");
                if is_lzma {
                    assert!(co >= 5 && b[hl] == 0);
                    assert!(consumed == hl + co, "C16-B: LZMA chunk must consume header + compressed size exactly");
                    assert!(!r.need_props);
                } else {
                    assert!(consumed == 3, "C16-B: raw chunk header is 3 bytes");
                }
                assert!(!r.need_dict_reset);
            }
            kani::cover!(is_lzma && b[0] >= 0xE0, "full reset LZMA chunk accepted");
            kani::cover!(is_lzma && b[0] < 0xA0, "no-reset LZMA chunk accepted");
            kani::cover!(!is_lzma && b[0] == 2, "raw chunk without reset accepted");
            kani::cover!(b[0] == 0, "terminator");
        }
        Err(e) => {
            // accepted by the model but refused here: only because the source ended, the payload is malformed
            // (first payload byte non-zero / shorter than 5)
            if ok && n == 12 && !is_lzma {
                panic!("C06-A: legal raw chunk / terminator refused");
            }
            if ok && is_lzma && n >= hl + co {
                assert!(co < 5 || b[hl] != 0, "C06-A: legal LZMA chunk header refused");
            }
            kani::cover!(is_eof(&e), "truncated header or payload is EOF");
            kani::cover!(!ok, "format violation refused");
        }
    }
    core::mem::forget(r);
}

// C05-B: a source that ends anywhere inside the header or the declared payload gives an error (never Ok, never a panic).
//@ {"name":"c05b_lzma2_truncated_chunk","props":["C05","C06"],"obligation":"C05-B","timeout":900,"functions":["lzma2_reader::LZMA2Reader::decode_chunk_header","range_dec::RangeDecoder::prepare","lz::LZDecoder::copy_uncompressed"],"bounds":"LZMA chunk with full reset, props byte 0, declared compressed size 6..=12 symbolic, source truncated at any length < header+payload; raw chunk of declared size 1..=8 with payload truncated; unwind 14","assumes":[]}
#[kani::proof]
#[kani::unwind(14)]
#[kani::stub(crate::decoder::LZMADecoder::new, crate::decoder::verif_stubs_dec::verif_havoc_decoder)]
fn c05b_lzma2_truncated_chunk() {
    let co: usize = kani::any();
    kani::assume(co >= 6 && co <= 12);
    let mut buf: [u8; 18] = kani::any();
    buf[0] = 0xE0;
    buf[1] = 0;
    buf[2] = 3;
    buf[3] = 0;
    buf[4] = (co - 1) as u8;
    buf[5] = 0;
    buf[6] = 0;
    let len: usize = kani::any();
    kani::assume(len < 6 + co);
    let mut src1 = Src::<18>::new(buf, len);
    let mut r = lzma2_on(&mut src1, true, true);
    let res = r.decode_chunk_header();
    assert!(res.is_err(), "C05-B: truncated LZMA2 chunk accepted");
    assert!(is_eof(&res.unwrap_err()), "C05-B: truncation must surface as unexpected EOF");
    kani::cover!(len == 6 + 11, "one byte short of a 12-byte payload");
    kani::cover!(len == 0, "empty source");
    core::mem::forget(r);

    // raw chunk: header complete, payload short
    let un: usize = kani::any();
    kani::assume(un >= 1 && un <= 8);
    let mut raw: [u8; 11] = kani::any();
    raw[0] = 1;
    raw[1] = 0;
    raw[2] = (un - 1) as u8;
    let rlen: usize = kani::any();
    kani::assume(rlen >= 3 && rlen < 3 + un);
    let mut src2 = Src::<11>::new(raw, rlen);
    let mut r2 = lzma2_on(&mut src2, true, true);
    assert!(r2.decode_chunk_header().is_ok());
    let res2 = r2.lz.copy_uncompressed(&mut r2.inner, un);
    assert!(res2.is_err() && is_eof(&res2.unwrap_err()), "C05-B: truncated raw chunk payload accepted");
    kani::cover!(rlen == 3 + 7, "raw payload one byte short");
    core::mem::forget(r2);
}

/// Cheap stand-in for LZMADecoder::reset (the real one is ~2000 `fill` iterations): resets what the harness observes.
fn verif_reset_marker(d: &mut crate::decoder::LZMADecoder) {
    verif_set_state(d, 0, [0; 4]);
}

// C01-E / C03: chunk control bytes 0xA0..=0xBF ("state reset") must reset the coder state of the existing decoder;
// 0x80..=0x9F must leave it alone (liblzma emits 0xA0 after a stored chunk: skipping the reset desynchronises).
//@ {"name":"c01e_lzma2_reader_state_reset","props":["C01","C03"],"obligation":"C01-E","timeout":1500,"mem_gb":9,"functions":["lzma2_reader::LZMA2Reader::decode_chunk_header"],"bounds":"control byte any value in 0x80..=0xBF, size bytes arbitrary, 5-byte payload; existing decoder in state 5 with non-zero reps; unwind 14","assumes":["LZMADecoder::reset replaced by a marker that resets (state, reps) only"],"stubs":["LZMADecoder::reset -> verif_reset_marker","LZMADecoder::new -> verif_havoc_decoder"]}
#[kani::proof]
#[kani::unwind(14)]
#[kani::stub(crate::decoder::LZMADecoder::new, crate::decoder::verif_stubs_dec::verif_havoc_decoder)]
#[kani::stub(crate::decoder::LZMADecoder::reset, verif_reset_marker)]
fn c01e_lzma2_reader_state_reset() {
    let mut b: [u8; 12] = kani::any();
    kani::assume(b[0] >= 0x80 && b[0] <= 0xBF);
    b[3] = 0;
    b[4] = 4; // compressed size 5
    b[5] = 0; // first payload byte
    let mut src = Src::<12>::full(b);
    let mut r = lzma2_on(&mut src, false, false);
    let mut d = verif_havoc_decoder(0, 0, 0);
    verif_set_state(&mut d, 5, [1, 2, 3, 4]);
    r.lzma = Some(d);
    let res = r.decode_chunk_header();
    assert!(res.is_ok());
    let (st, reps) = verif_get_state(r.lzma.as_ref().unwrap());
    if b[0] >= 0xA0 {
        assert!(st == 0 && reps[0] == 0 && reps[1] == 0 && reps[2] == 0 && reps[3] == 0, "C01-E: state-reset chunk did not reset the coder state");
    } else {
        assert!(st == 5 && reps[0] == 1 && reps[1] == 2 && reps[2] == 3 && reps[3] == 4, "C01-E: chunk without reset disturbed the coder state");
    }
    kani::cover!(b[0] == 0xA0, "exactly 0xA0");
    kani::cover!(b[0] < 0xA0, "no reset");
    core::mem::forget(r);
}

// C06-A (raw chunk sizes, cheap enough to be replayed): an uncompressed chunk header (control 1 or 2) with any size
// field: no panic, size = field + 1 (1..=65536), three bytes consumed.
//@ {"name":"c06a_lzma2_raw_chunk_size","props":["C06","C01"],"obligation":"C06-A","timeout":900,"mem_gb":9,"functions":["lzma2_reader::LZMA2Reader::decode_chunk_header"],"bounds":"control byte 1 or 2 (symbolic), two arbitrary size bytes; reader flags symbolic; unwind 6","assumes":[]}
#[kani::proof]
#[kani::unwind(6)]
#[kani::stub(crate::decoder::LZMADecoder::new, crate::decoder::verif_stubs_dec::verif_havoc_decoder)]
fn c06a_lzma2_raw_chunk_size() {
    let mut b: [u8; 3] = kani::any();
    kani::assume(b[0] == 1 || b[0] == 2);
    let mut src = Src::<3>::full(b);
    let ndr: bool = kani::any();
    let mut r = lzma2_on(&mut src, kani::any(), ndr);
    let res = r.decode_chunk_header();
    if b[0] == 2 && ndr {
        assert!(res.is_err());
    } else {
        assert!(res.is_ok());
        assert!(!r.is_lzma_chunk);
        assert!(r.uncompressed_size == (((b[1] as usize) << 8) | b[2] as usize) + 1, "C06-A: stored chunk size is the 16-bit field + 1");
        assert!(r.inner.pos == 3);
    }
    kani::cover!(b[1] == 0xFF && b[2] == 0xFF, "largest stored chunk (65536 bytes)");
    core::mem::forget(r);
}
