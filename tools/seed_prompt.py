#!/usr/bin/env python3
"""Prints the prompt given to a seeding sub-agent for property <ID> (only the property text + generic constraints)."""
import json, sys
pid = sys.argv[1]
feat = sys.argv[2] if len(sys.argv) > 2 else "encoder,xz,lzip"
p = next(json.loads(l) for l in open('/verif/properties.jsonl') if json.loads(l)['id'] == pid)
print(f'''You are helping to evaluate a verification framework by creating realistic "seeded bugs" in a Rust crate. Work ONLY inside the directory /tmp/seed/{pid}, which is a git worktree (detached HEAD) of the crate `lzma-rust2` (pure-Rust LZMA/LZMA2/XZ/LZIP compressor and decompressor; read its README and src/ to get oriented). Do NOT read, list or modify anything under /repo or /verif. The machine has no network; use `cargo ... --offline`. Always set `CARGO_TARGET_DIR=/tmp/seed/{pid}/target` and pass `-j 4` to cargo (other jobs are running on this machine). Note that some files in tests/data are empty (0 bytes) in this sandbox, so several integration tests are trivial; `cargo test --offline --lib -j 4` plus the integration tests most relevant to your change are enough to check "existing tests still pass" (do not run the full test suite more than once or twice, it is slow; if you do, use `-- --test-threads 4`). Some tests (xz round_trip_*, multi_writer, regression issue_44) fail already on the unchanged tree; ignore those.

The property under study:

"""
{p['id']}: {p['title']}

{p['statement']}

Quantified over: {p['quantifier']['text']}
"""

Task: produce THREE distinct, independent code changes to the crate's source (src/...), each of which:
  1. breaks the property above;
  2. still compiles (default features AND `--no-default-features --features {feat}`), and still passes the existing tests that pass on the unchanged tree;
  3. needs something SPECIFIC to manifest - an unusual input or parameter value, a particular size/offset boundary, a rare value of an internal quantity, a multi-step sequence of operations, a fault at a particular point, or two cooperating sites that each look fine alone - NOT something ordinary use would expose at once. Prefer small, plausible edits (an off-by-one, a wrong constant, a swapped comparison, a missing mask, `>` vs `>=`, a wrong shift, a dropped check).
  Make the three changes different in kind and location.

For each change N in 1..3 deliver, under /tmp/seed/{pid}/out/N/ :
  - patch.diff : output of `git diff` for that change alone (relative to the worktree HEAD);
  - a demonstration: a Rust integration test file `demo.rs` (to be dropped into tests/) or a small program, that FAILS with the change applied and PASSES on the unchanged tree. If the behaviour concerns crate-private functions, an in-crate `#[cfg(test)]` unit test appended to the relevant source file is fine too (then save it as demo_unit_test.rs and say in notes.md where it has to be pasted). Actually run it both ways and record the outputs;
  - notes.md : which part of the property it breaks, exactly what is needed for it to manifest, the commands you ran and their results (including the existing-tests run).
After saving each patch, restore the worktree with `git checkout -- . && git clean -fdq tests/` (keep out/ and target/) so that the three patches are independent and each applies to a clean HEAD. Verify at the end that each patch.diff applies cleanly to a clean HEAD with `git apply --check`.

Finish with a short report listing the three changes (file, one-line description, what triggers them) and confirming the verification you performed.''')
