#!/usr/bin/env python3
"""Apply a seeded change to /repo, run the quick checks of the given properties, undo the change.
usage: tools/eval_seed.py <seed-dir with patch.diff> P1 [P2 ...] [--only substr]
Writes <seed-dir>/eval.json; NEVER leaves the patch applied (git checkout -- . in a finally)."""
import json, os, subprocess, sys, time, fcntl
V = os.path.dirname(os.path.dirname(os.path.abspath(__file__)))
seed = os.path.abspath(sys.argv[1])
args = sys.argv[2:]
only = None
if "--only" in args:
    i = args.index("--only"); only = args[i + 1]; args = args[:i] + args[i + 2:]
lock = open(os.path.join(V, ".cache", "repo.lock"), "w")
fcntl.flock(lock, fcntl.LOCK_EX)
st = subprocess.run(["git", "-C", "/repo", "status", "--porcelain"], stdout=subprocess.PIPE, text=True).stdout.strip()
if st:
    sys.exit("refusing: /repo working tree is not clean:\n" + st)
res = {"seed": seed, "head": subprocess.run(["git", "-C", "/repo", "rev-parse", "--short", "HEAD"], stdout=subprocess.PIPE, text=True).stdout.strip(), "checks": []}
try:
    subprocess.check_call(["git", "-C", "/repo", "apply", os.path.join(seed, "patch.diff")])
    for p in args:
        t0 = time.time()
        cmd = [os.path.join(V, "check"), p, "--tier", "quick"] + (["--only", only] if only else [])
        env = dict(os.environ); env["VERIF_EVIDENCE_DIR"] = os.path.join(V, ".cache", "seed-evidence")
        r = subprocess.run(cmd, cwd=V, stdout=subprocess.PIPE, stderr=subprocess.STDOUT, text=True, env=env)
        lines = r.stdout.splitlines()
        res["checks"].append({
            "property": p, "exit": r.returncode, "wall_s": round(time.time() - t0),
            "violations": [l for l in lines if l.startswith("VIOLATION")],
            "undecided": [l[:300] for l in lines if l.startswith("UNDECIDED")],
            "failed_harnesses": [l.split()[1] for l in lines if l.startswith("[") and " FAILED " in l],
        })
        print(p, "exit", r.returncode, res["checks"][-1]["failed_harnesses"], flush=True)
finally:
    subprocess.call(["git", "-C", "/repo", "checkout", "--", "."])
res["caught"] = any(c["exit"] == 1 for c in res["checks"])
json.dump(res, open(os.path.join(seed, "eval.json"), "w"), indent=1)
print("caught:", res["caught"])
