#!/usr/bin/env python3
"""Apply a seeded change to /repo, run the quick checks of the given properties, undo the change.
usage: tools/eval_seed.py <seed-dir with patch.diff> P1 [P2 ...] [--only substr]
Writes <seed-dir>/eval.json; NEVER leaves the patch applied (git checkout -- . in a finally)."""
import json, os, subprocess, sys, time, fcntl
V = os.path.dirname(os.path.dirname(os.path.abspath(__file__)))
seed = os.path.abspath(sys.argv[1])
args = sys.argv[2:]
only = None
if "--only" in args:
    i = args.index("--only"); only = args[i + 1]; args = args[:i] + args[i + 2:]
# The change is applied in a scratch worktree of /repo's HEAD (never in /repo itself) and the checks are pointed at it
# with VERIF_REPO; this is the same code path as the registered commands, only the source directory differs.
R = os.environ.get("VERIF_SEED_REPO", "/tmp/seedrepo")
TAG = os.path.basename(R)
lock = open(os.path.join(V, ".cache", TAG + ".lock"), "w")
fcntl.flock(lock, fcntl.LOCK_EX)
head = subprocess.run(["git", "-C", "/repo", "rev-parse", "HEAD"], stdout=subprocess.PIPE, text=True).stdout.strip()
if not os.path.isdir(R):
    subprocess.check_call(["git", "-C", "/repo", "worktree", "add", "-q", "--detach", R, head])
subprocess.check_call(["git", "-C", R, "checkout", "-q", "--detach", head])
subprocess.call(["git", "-C", R, "checkout", "-q", "--", "."])
res = {"seed": seed, "head": head[:7], "checks": []}
try:
    subprocess.check_call(["git", "-C", R, "apply", os.path.join(seed, "patch.diff")])
    for p in args:
        t0 = time.time()
        cmd = [os.path.join(V, "check"), p, "--tier", "quick"] + (["--only", only] if only else [])
        env = dict(os.environ); env["VERIF_EVIDENCE_DIR"] = os.path.join(V, ".cache", "seed-evidence." + TAG); env["VERIF_REPO"] = R; env["VERIF_LOG_TAG"] = "." + TAG
        env["VERIF_REPLAY_DIR"] = os.path.join(V, ".cache", "seed-replays")
        r = subprocess.run(cmd, cwd=V, stdout=subprocess.PIPE, stderr=subprocess.STDOUT, text=True, env=env)
        lines = r.stdout.splitlines()
        res["checks"].append({
            "property": p, "exit": r.returncode, "wall_s": round(time.time() - t0),
            "violations": [l for l in lines if l.startswith("VIOLATION")],
            "undecided": [l[:300] for l in lines if l.startswith("UNDECIDED")],
            "failed_harnesses": [l.split()[1] for l in lines if l.startswith("[") and " FAILED " in l],
            "new_failures": [os.path.basename(l.split("replay=")[1]).rsplit(".", 2)[0] for l in lines if l.startswith("VIOLATION") and "replay=" in l],
        })
        print(p, "exit", r.returncode, res["checks"][-1]["new_failures"], [u[:120] for u in res["checks"][-1]["undecided"]][:3], flush=True)
finally:
    subprocess.call(["git", "-C", R, "checkout", "-q", "--", "."])
res["caught"] = any(c["exit"] == 1 for c in res["checks"])
json.dump(res, open(os.path.join(seed, "eval.json"), "w"), indent=1)
print("caught:", res["caught"])
