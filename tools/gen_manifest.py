#!/usr/bin/env python3
"""Regenerates /verif/MANIFEST.json from the harness registry (harness/*.rs metadata) and the table below."""
import json, os, sys
V = os.path.dirname(os.path.dirname(os.path.abspath(__file__)))
sys.path.insert(0, os.path.join(V, 'lib'))
import vk

TEXT = {
 "C01": ("kernel level: range-coder bit/tree/direct-bit mirrors, distance-slot arithmetic for every u32, LZMA2 chunk-header writer<->reader step, LZ window and LZ dictionary one-step invariants, one HC4 / BT4 match-finder step from an arbitrary finder state (every reported pair is a true match inside dictionary and window; hash tables as environment stub), Fast-mode parser soundness, each decided by CBMC over all symbolic inputs inside the stated bounds. Whole-stream round trips (optimal parser, LZMA symbol layer beyond one literal, >1 symbol) are outside the claim.", "6/C01"),
 "C02": ("container-field level: LZIP dictionary byte for every u32, XZ multibyte integers for every u64, stream header / block header / index / footer writer<->parser round trips for symbolic field values, LZIP header/trailer fields. Payload coding is covered only through the C01 kernels.", "6/C02"),
 "C03": ("differential against a short reference model of the xz / lzip / LZMA_Alone / LZMA2-chunk layouts written from the format specifications; liblzma itself is C behind FFI and cannot be encoded, so acceptance by the real reference binary is outside the claim.", "6/C03"),
 "C04": ("detection-logic level: every integrity comparison site (XZ stream header/footer/block header/index CRC32, block check, LZIP trailer fields, magic/version/dictionary byte) returns Ok only when the stored field equals the recomputed one, for all field values; index records are compared with the decoded blocks; input ending inside a following stream's magic is an error. 'Every corruption of every file' is outside (and false for any 32-bit check).", "6/C04"),
 "C05": ("fault-schedule level: EOF position / error call index / short-read and short-write counts are symbolic variables of the source and sink stubs; decided for the range decoder source, LZMA2 header reads, XZ padding read, Delta/BCJ filter wrappers and the no_std read_exact/write_all helpers.", "6/C05"),
 "C06": ("totality (no panic, no arithmetic overflow, no out-of-bounds, bounded allocation) of every header/field parser, every filter kernel and the LZ dictionary step on arbitrary bytes and caller parameters, within stated byte bounds. Whole-stream decode loops, termination time and MT readers are outside.", "6/C06"),
 "C07": ("step level: split invariance of Delta, BCJ reader/writer, LZ dictionary repeat/pending, window fill, and zero-length read guards. Real LZMA/LZMA2/XZ/LZIP writers with payload are outside.", "6/C07"),
 "C11": ("BCJ (8 architectures) decode(encode(x)) = x for all N-byte buffers and aligned offsets; simple-architecture filters equal a one-line reference formula; Delta equals its reference formula for every distance; BCJ2 decoder totality only.", "6/C11"),
 "C12": ("XZ part: stream-padding / next-stream logic for symbolic padding length and header bytes; stop after the footer with multi-stream off. LZIP member loop and MT member scan are outside.", "6/C12"),
 "C13": ("mechanism level, not output level: zero-initialised tables, look-ahead gating predicate, window-fill partition invariance, match-finder steps as functions of window and finder state, LZIP member limit independent of the write cut. Byte-identical whole outputs across partitions, runs, worker counts and schedules are outside.", "6/C13"),
 "C14": ("twin level: each cfg(feature=optimization) twin equals one common spec on symbolic inputs; the asm decode_direct_bits and the SIMD normalize lanes are lowered from the source text at check time and compared with the portable code; no_std Read/Write helpers meet std's contract.", "6/C14"),
 "C15": ("callee level: every raw read / get_unchecked / lowered asm load in lz/mod.rs, get_match_len_fast_reject, aligned_memory.rs and range_dec.rs is in bounds under its stated precondition (Kani pointer checks on the optimization build). Caller side: every match HC4 / BT4 report lies inside the window at both ends (one step from an arbitrary finder state, search depth <= 2-3); deeper searches and the Normal-mode parser are outside.", "6/C15"),
 "C16": ("kernel level: bytes pulled by the range decoder equal bytes pushed by the encoder (bounded number of coded bits + flush); LZMA2 header/prepare consume exactly header + compressed size; XZ stops after the footer.", "6/C16"),
 "C17": ("estimator arithmetic versus sizes read back from really constructed objects, for all dictionary sizes / lc / lp / mode / match finder; memory-limit check for all 13-byte .lzma headers.", "6/C17"),
 "C18": ("single-threaded part: XZ block / LZIP member / .lzma expected-size logic for symbolic sizes and write lengths; option clamps for all values. MT unit sizes and counts are outside.", "6/C18"),
 "C19": ("component level: the size/props/header arithmetic every writer constructor delegates to, for every value of every public option field: Err or a header the reader accepts, never a panic. The body of LZMAEncoder::new itself is outside (not executable under CBMC).", "6/C19"),
}
NA = {
 "C08": "schedule-quantified: the MT readers/writers reach std::sync::mpsc (Kani internal compiler error), Condvar (futex syscall unsupported) and thread::spawn (unsupported); with those stubbed sequentially the coordinator code did not finish symbolic execution (io::Error/Mutex/Arc on every path) and interleavings would be defined away. Interleaving exploration is a different technique family (DESIGN.md section 7).",
 "C09": "same as C08: termination under every schedule of real mpsc/Condvar/thread code cannot be encoded for CBMC; a sequential stub removes exactly the behaviour the property quantifies over (DESIGN.md section 7).",
 "C10": "same as C08: the lost-wake-up/drop behaviour lives in interleavings of real threads through Mutex/Condvar/AtomicBool in work_queue.rs; not encodable with Kani 0.68 (futex syscall, thread::spawn) (DESIGN.md section 7).",
}

def main():
    frags = vk.load_fragments()
    props = [json.loads(l)["id"] for l in open(os.path.join(V, "properties.jsonl"))]
    claimed = {}
    for fr in frags:
        for h in fr.harnesses:
            for p in h.get("props", []):
                claimed.setdefault(p, []).append(h)
    checks = []
    na = []
    for p in props:
        if p in claimed and p not in NA:
            text, ref = TEXT[p]
            hs = claimed[p]
            nq = sum(1 for h in hs if h["tier"] == "quick")
            checks.append({
                "property_id": p,
                "quick_cmd": "./check %s --tier quick" % p,
                "thorough_cmd": "./check %s --tier thorough" % p,
                "evidence_file": "evidence/%s.json" % p,
                "replay_cmd_template": "./check %s --replay {path}" % p,
                "engine": "kani",
                "level_claimed": {"category": "model_checking", "text": "Bounded model checking (Kani/CBMC) of the real functions: " + text, "design_ref": "DESIGN.md section " + ref},
                "level_note": "Bounded: every harness states its unwind/size bounds in evidence; outside the bounds nothing is claimed. Trusted: rustc+Kani MIR->GOTO translation, CBMC, CaDiCaL, crc/sha2 crates (executed, not re-specified), the harness-side stubs (Sink/Src, constructor stubs validated natively per run) and reference models. Kani builds with overflow checks and debug assertions on (dev-profile semantics) in the no_std configuration. %d quick / %d total harnesses." % (nq, len(hs)),
                "technique": "solver-based bounded model checking of the real Rust code (Kani 0.68 -> CBMC 6.11 -> CaDiCaL), symbolic inputs via kani::any(), counterexamples replayed natively before reporting",
            })
        else:
            na.append({"property_id": p, "reason": NA.get(p, "no check built yet in this revision of /verif (planned, see DESIGN.md section 6)")})
    m = {
        "version": 1,
        "setup_cmd": "./setup.sh",
        "hooks": {
            "guard": "cfg(kani)",
            "enable": "no hook is committed to /repo: harness modules from /verif/harness/*.rs are appended (as #[cfg(kani)] child modules) to a scratch copy of /repo's working tree on every run; cargo kani sets --cfg kani",
            "baseline_off_cmd": "./baseline.sh",
            "source_commits": [],
            "add_only": True,
        },
        "engines": [
            {"name": "kani", "path": "lib/vk.py", "serves_properties": [c["property_id"] for c in checks],
             "kind_free_text": "bounded model checker for Rust (Kani 0.68.0, CBMC 6.11.0, CaDiCaL); harness fragments in harness/*.rs are injected into a scratch copy of /repo's current working tree; verdict = SAT solver's verdict over all symbolic inputs within stated bounds"},
        ],
        "checks": checks,
        "not_applicable": na,
        "notes": "See DESIGN.md. Exit codes of ./check: 0 = all obligations discharged or matched by KNOWN_FINDINGS.txt; 1 = natively replayed unlisted violation; 2 = undecided (timeout/OOM/compile error/vacuity guard). Known findings and fixed defects: KNOWN_FINDINGS.txt.",
    }
    with open(os.path.join(V, "MANIFEST.json"), "w") as f:
        json.dump(m, f, indent=1)
    print("claimed:", [c["property_id"] for c in checks], "n/a:", [x["property_id"] for x in na])

main()
