#!/bin/bash
# Evaluate every seeded change (tools/eval_seed_fast.py) - worker W of N; each worker has its own scratch worktree.
# usage: tools/eval_all_fast.sh [W N] ; FORCE=1 re-evaluates; PATTERN=<glob> restricts (default C* R-*)
cd /verif
W=${1:-0}; N=${2:-1}
export VERIF_SEED_REPO=/tmp/seedrepo$W
i=0
for d in seeded/${PATTERN:-[CR]*}; do
  i=$((i+1))
  [ $((i % N)) -eq $W ] || continue
  [ -f $d/eval.json ] && [ -z "${FORCE:-}" ] && continue
  tools/eval_seed_fast.py $d 2>&1 | grep -v "^WARNING" | tail -4
done
git -C /repo worktree remove --force $VERIF_SEED_REPO 2>/dev/null
