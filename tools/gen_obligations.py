#!/usr/bin/env python3
"""Prints a markdown table of all registered harnesses (for DESIGN.md section 6), from the fragment metadata."""
import os, sys, json
V = os.path.dirname(os.path.dirname(os.path.abspath(__file__)))
sys.path.insert(0, os.path.join(V, 'lib'))
import vk
rows = []
for fr in vk.load_fragments():
    for h in fr.harnesses:
        rows.append((h.get("obligation", ""), h["id"], ",".join(h["props"]), h["tier"][0].upper(), h["features"].replace("encoder", "enc").replace("optimization", "opt"), h["bounds"], "; ".join(h["assumes"])))
rows.sort()
print("| obligation | harness | properties | tier | features | bounds | assumptions |")
print("|---|---|---|---|---|---|---|")
for r in rows:
    print("| " + " | ".join(x.replace("|", "/") for x in r) + " |")
print()
print("%d harnesses (%d quick, %d thorough-only)" % (len(rows), sum(1 for r in rows if r[3] == "Q"), sum(1 for r in rows if r[3] == "T")))
