#!/usr/bin/env python3
"""Rebuilds the generated tail of DESIGN.md (sections 10 and 11) from tools/design_section10_*.md, seeded/*/{meta,eval}.json
and the harness registry.  Sections 0-9 + Appendix A (the plan written before the code) are left untouched."""
import json, os, subprocess, glob, re
V = os.path.dirname(os.path.dirname(os.path.abspath(__file__)))
d = open(os.path.join(V, "DESIGN.md")).read()
marker = "\n---------------------------------------------------------------------------------\n\n## 10. As built"
i = d.find(marker)
if i >= 0:
    d = d[:i]
d = d.rstrip() + "\n\n"
def part(n): return open(os.path.join(V, "tools", n)).read().rstrip() + "\n"
out = d + part("design_section10_head.md") + part("design_section10_props.md") + part("design_section10_new.md") + part("design_section10_findings.md")
# seeds table
rows = []
for mp in sorted(glob.glob(os.path.join(V, "seeded", "*", "meta.json"))):
    m = json.load(open(mp))
    name = m["seed"]
    ep = os.path.join(os.path.dirname(mp), "eval.json")
    ev = json.load(open(ep)) if os.path.exists(ep) else None
    if ev:
        own = ev.get("caught_own_property", ev.get("caught"))
        caught = "yes" if own else ("via another property" if ev.get("caught") else ("no (undecided, exit 2)" if any(c["exit"] == 2 for c in ev["checks"]) else "no"))
        by = []
        for c in ev["checks"]:
            if c["exit"] == 1:
                by.append("%s: %s" % (c["property"], ", ".join(sorted(set(c.get("caught_by") or c.get("new_failures") or c.get("failed_harnesses") or []))[:4])))
            elif c["exit"] == 2:
                by.append("%s: undecided (%s)" % (c["property"], "; ".join(u.split(":")[0].replace("UNDECIDED property=", "") for u in c["undecided"][:2])))
        by = "; ".join(by) or "-"
        tp = os.path.join(os.path.dirname(mp), "eval_thorough.json")
        if not ev.get("caught") and os.path.exists(tp):
            tv = json.load(open(tp))
            if tv.get("caught"):
                caught = "thorough only"
                by = "; ".join("%s: %s" % (c["property"], ", ".join(c.get("caught_by", [])[:4])) for c in tv["checks"] if c["exit"] == 1)
    else:
        caught, by = "not evaluated", "-"
    conf = m.get("confirmed")
    rows.append((name, m.get("property", "-"), m.get("change", "").replace("|", "/"), m.get("needs_to_manifest", "-").replace("|", "/"),
                 "yes" if conf else ("n/a" if name.startswith("R-") else "no"), caught, by))
t = ["\n### 10.7 Seeded changes: which checks catch which change\n",
     "Sub-agents were given only the text of one property and a scratch worktree (prompt: `tools/seed_prompt.py`) and asked",
     "for changes that break it, still compile, pass the existing tests and need something specific to manifest. Each",
     "change was confirmed by me in the agent's worktree (`tools/confirm_seed.py`: patch applies, both feature sets build,",
     "demo fails with / passes without the patch, pinned suite 179/179 with the patch) and then evaluated with",
     "`tools/eval_seed_fast.py`: the patch is applied to a scratch worktree of `/repo`'s HEAD and every **quick** harness that can",
     "see a touched file (fragment injected into it, or `functions` naming its module; the whole quick check of the property when",
     "the change is in `src/lib.rs`) runs against it through `./check <P> --tier quick` restricted with `VERIF_ONLY_IDS` - the same",
     "code path as the registered command, so a harness that raises a VIOLATION here raises it in the full run. `R-<commit>` rows",
     "are the reverse patches of my own `fix:` commits (the original defects; evaluated with the full quick check,",
     "`tools/eval_seed.py`). \"caught\" = the check exits 1 with a natively replayed VIOLATION; \"thorough only\" = only a",
     "thorough-tier harness raises it.\n",
     "| seed | prop | change | needs to manifest | confirmed | caught (quick) | by |", "|---|---|---|---|---|---|---|"]
for r in rows:
    t.append("| " + " | ".join(r) + " |")
out += "\n".join(t) + "\n"
if os.path.exists(os.path.join(V, "tools", "design_section10_seeds_notes.md")):
    out += part("design_section10_seeds_notes.md")
ob = subprocess.run(["python3", os.path.join(V, "tools", "gen_obligations.py")], stdout=subprocess.PIPE, text=True).stdout
out += "\n---------------------------------------------------------------------------------\n\n## 11. Registered obligations (generated from the harness metadata)\n\n" + ob
open(os.path.join(V, "DESIGN.md"), "w").write(out)
print("DESIGN.md: %d lines" % out.count("\n"))
