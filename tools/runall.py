#!/usr/bin/env python3
"""Dev aid: run ./check for several properties sequentially, appending one block per property to a log file.
usage: tools/runall.py <logfile> [--tier T] P1 P2 ...      (kill the process group to stop everything)"""
import os, subprocess, sys, time, signal
os.setsid() if os.getpgrp() != os.getpid() else None
log = sys.argv[1]
args = sys.argv[2:]
tier = "quick"
if args and args[0] == "--tier":
    tier = args[1]; args = args[2:]
V = os.path.dirname(os.path.dirname(os.path.abspath(__file__)))
with open(log, "a") as f:
    for p in args:
        t0 = time.time()
        r = subprocess.run([os.path.join(V, "check"), p, "--tier", tier], cwd=V, stdout=subprocess.PIPE, stderr=subprocess.STDOUT, text=True)
        lines = [l[:420] for l in r.stdout.splitlines()]
        f.write("\n".join(lines) + "\n== %s exit=%d wall=%.0fs\n" % (p, r.returncode, time.time() - t0))
        f.flush()
