#!/bin/bash
# usage: tools/import_round2.sh <PROP> <first-new-index>   (imports /tmp/seed/<PROP>/out/{1,2,3} as seeded/<PROP>-<k>, confirms, removes worktree)
P=$1; K=$2
cd /verif
for n in 1 2 3; do
  src=/tmp/seed/$P/out/$n
  [ -d $src ] || continue
  d=seeded/$P-$K
  mkdir -p $d
  cp -r $src/* $d/ 2>/dev/null
  tools/confirm_seed.py $P-$K /tmp/seed/$P 2>&1 | tail -1 | cut -c1-300
  K=$((K+1))
done
git -C /repo worktree remove --force /tmp/seed/$P
echo "imported $P"
