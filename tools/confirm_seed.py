#!/usr/bin/env python3
"""Independent confirmation of a seeded change in its scratch worktree (never /repo):
   1. patch applies to a clean HEAD and the crate builds (default features and no_std feature set);
   2. the demonstration FAILS with the patch and PASSES without it;
   3. the repository's pinned suite (stable_pass list of /root/.vp/BASELINE.json) still passes with the patch.
usage: tools/confirm_seed.py <seed-name e.g. C04-1> <worktree> [--no-suite]
Writes seeded/<name>/meta.json."""
import json, os, re, subprocess, sys, shutil, time
import xml.etree.ElementTree as ET
V = os.path.dirname(os.path.dirname(os.path.abspath(__file__)))
name, wt = sys.argv[1], sys.argv[2]
suite = "--no-suite" not in sys.argv
sd = os.path.join(V, "seeded", name)
env = dict(os.environ, CARGO_TARGET_DIR=os.path.join(wt, "target"), CARGO_NET_OFFLINE="true")

def run(cmd, timeout=3000):
    r = subprocess.run(cmd, cwd=wt, env=env, stdout=subprocess.PIPE, stderr=subprocess.STDOUT, text=True, timeout=timeout)
    return r.returncode, r.stdout

def clean():
    subprocess.call(["git", "checkout", "-q", "--", "."], cwd=wt)
    subprocess.call(["git", "clean", "-fdq", "tests/", "src/"], cwd=wt)

def demo_result():
    extra = []
    fa = os.path.join(sd, "demo_features.txt")   # e.g. "--no-default-features --features encoder,xz,lzip"
    if os.path.exists(fa):
        extra = open(fa).read().split()
    rc, out = run(["cargo", "test", "--offline", "-j", "6"] + extra + ["--test", "verif_demo", "--", "--test-threads", "2"])
    m = re.search(r"test result: (\w+)\. (\d+) passed; (\d+) failed", out)
    return rc, (m.group(0) if m else out[-400:])

meta = {"seed": name, "worktree_head": subprocess.run(["git", "rev-parse", "--short", "HEAD"], cwd=wt, stdout=subprocess.PIPE, text=True).stdout.strip()}
clean()
demo = os.path.join(sd, "demo.rs")
unit = os.path.join(sd, "demo_unit_test.rs")
try:
    # without the patch
    if os.path.exists(demo):
        shutil.copy(demo, os.path.join(wt, "tests", "verif_demo.rs"))
        rc0, r0 = demo_result()
        meta["demo_without_patch"] = {"exit": rc0, "result": r0}
    # with the patch
    rc = subprocess.call(["git", "apply", os.path.join(sd, "patch.diff")], cwd=wt)
    meta["patch_applies"] = rc == 0
    rcb, outb = run(["cargo", "build", "--offline", "-j", "6"])
    rcn, outn = run(["cargo", "build", "--offline", "-j", "6", "--no-default-features", "--features", "encoder,xz,lzip"])
    meta["builds_default"] = rcb == 0
    meta["builds_no_std"] = rcn == 0
    if os.path.exists(demo):
        rc1, r1 = demo_result()
        meta["demo_with_patch"] = {"exit": rc1, "result": r1}
    if suite:
        t0 = time.time()
        j = os.path.join(wt, "target", "nextest", "pb", "junit.xml")
        if os.path.exists(j):
            os.remove(j)
        if os.path.exists(os.path.join(wt, "tests", "verif_demo.rs")):
            os.remove(os.path.join(wt, "tests", "verif_demo.rs"))
        rcs, outs = run(["cargo", "nextest", "run", "--workspace", "--no-fail-fast", "--tool-config-file", "pb:/w/lib/nextest.toml",
                         "--profile", "pb", "--test-threads", "6", "--offline"], timeout=3600)
        stable = set(json.load(open("/root/.vp/BASELINE.json"))["stable_pass"])
        passed = set()
        if os.path.exists(j):
            for tc in ET.parse(j).getroot().iter("testcase"):
                if not [c for c in tc if c.tag in ("failure", "error")]:
                    passed.add(tc.get("classname") + "::" + tc.get("name"))
        missing = sorted(stable - passed)
        meta["suite_with_patch"] = {"stable_passed": len(stable) - len(missing), "stable_total": len(stable), "missing": missing[:10], "wall_s": round(time.time() - t0)}
finally:
    clean()
ok = meta.get("patch_applies") and meta.get("builds_default") and meta.get("builds_no_std")
if "demo_with_patch" in meta:
    ok = ok and meta["demo_with_patch"]["exit"] != 0 and meta["demo_without_patch"]["exit"] == 0
if suite:
    ok = ok and not meta["suite_with_patch"]["missing"]
meta["confirmed"] = bool(ok)
old = {}
mp = os.path.join(sd, "meta.json")
if os.path.exists(mp):
    old = json.load(open(mp))
old.update(meta)
json.dump(old, open(mp, "w"), indent=1)
print(name, "confirmed" if ok else "NOT confirmed", json.dumps(meta)[:600])
