#!/bin/bash
# Evaluate every seeded change against the quick check of its own property (and extra properties given in a map).
cd /verif
declare -A EXTRA=( [C03-1]="C01" [C03-2]="C01" [C03-3]="C02" [C05-2]="C02" [C19-2]="C02" [C16-2]="C12" [C12-2]="C16" [C14-3]="C05" [C06-3]="C01" [C17-1]="C06" [C07-1]="" )
for d in seeded/C*; do
  n=$(basename $d)
  [ -f $d/eval.json ] && [ -z "${FORCE:-}" ] && continue
  p=${n%-*}
  tools/eval_seed.py $d $p ${EXTRA[$n]:-} 2>&1 | tail -3 | sed "s/^/[$n] /"
done
