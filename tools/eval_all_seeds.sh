#!/bin/bash
# Evaluate every seeded change against the quick check of its own property (and extra properties given in a map).
# usage: tools/eval_all_seeds.sh [worker-index nworkers]   (several workers share the slot pool; each has its own scratch worktree)
cd /verif
W=${1:-0}; N=${2:-1}
export VERIF_SEED_REPO=/tmp/seedrepo$W
declare -A EXTRA=( [C03-1]="C01" [C03-2]="C01" [C03-3]="C02" [C05-2]="C02" [C19-2]="C02" [C16-2]="C12" [C12-2]="C16" [C14-3]="C05" [C06-3]="C01" [C17-1]="C06" [C07-1]="" )
i=0
for d in seeded/C*; do
  n=$(basename $d)
  i=$((i+1))
  [ $((i % N)) -eq $W ] || continue
  [ -f $d/eval.json ] && [ -z "${FORCE:-}" ] && continue
  p=${n%-*}
  tools/eval_seed.py $d $p ${EXTRA[$n]:-} 2>&1 | tail -3 | sed "s/^/[$n] /"
done
git -C /repo worktree remove --force $VERIF_SEED_REPO 2>/dev/null
