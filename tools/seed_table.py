#!/usr/bin/env python3
"""Hand-written index of the seeded changes: property, what the change is, what it needs in order to manifest.
Merged into seeded/<name>/meta.json (which also holds my own confirmation runs and, in eval.json, what the checks said)."""
import json, os
V = os.path.dirname(os.path.dirname(os.path.abspath(__file__)))
T = {
 "C01-1": ("C01", "lz_decoder.rs repeat: `pos < dist + 1` -> `pos < dist`", "a match whose first source byte is the last slot of the decoder ring (pos == dist after the dictionary wrapped)"),
 "C01-2": ("C01", "lz_encoder.rs MOVE_BLOCK_ALIGN 64 -> 8", "pb=4 or lp=4, a window move, and a move offset that is 8 mod 16"),
 "C01-3": ("C01", "encoder.rs LZMA2_UNCOMPRESSED_LIMIT (2<<20)-273 -> (2<<20)-272", "a chunk whose running size is exactly 2096880 followed by a 273-byte match (about 2 MiB of highly compressible data)"),
 "C01-4": ("C01", "lz_encoder.rs move_window offset rounded up instead of down", "Fast mode, near-maximum-distance match probed right after a window move"),
 "C01-5": ("C01", "lz/hash234.rs Hash234::normalize renormalises hash2_table twice and hash3_table never (copy-paste slip)", "the match finder's lz_pos must reach 0x7FFFFFFF (about 2 GiB through one encoder), then ordinary data: stale hash3 entry gives a negative delta3, encoder panics"),
 "C01-6": ("C01", "lzma2_writer.rs write_uncompressed no longer sets state_reset_needed (cooperates with lzma.reset() in write_chunk)", "LZMA chunk, then >= 64 KiB incompressible data stored uncompressed, then compressible data"),
 "C01-7": ("C01", "lzma2_reader.rs decode_chunk_header `control >= 0xC0` -> `control > 0xC0`", "first LZMA chunk with control byte exactly 0xC0 (preset dictionary + small input, or incompressible start + short compressible tail)"),
 "C02-1": ("C02", "lzip.rs encode_dict_size rounds the fraction to nearest", "dictionary size not exactly representable with remainder >= half a unit, and a match beyond the announced size"),
 "C02-2": ("C02", "xz/reader.rs Index::parse uses the min(1024) clamp as loop bound", "an XZ stream with more than 1024 blocks"),
 "C02-3": ("C02", "xz/writer.rs SharedWriter::write counts buf.len() instead of the accepted bytes", "a sink that returns short writes, over-count not a multiple of 4"),
 "C03-1": ("C03", "lib.rs LiteralCoder::get_sub_coder_index masks after the shift", "custom lc>=1 and lp>=1; only visible against the reference implementation (own round trip still passes)"),
 "C03-2": ("C03", "lzma2_reader.rs `control >= 0xA0` -> `control > 0xA0` (state reset skipped for exactly 0xA0)", "liblzma stream: compressible start, > 64 KiB incompressible (stored chunk), then a compressed chunk <= 64 KiB"),
 "C03-3": ("C03", "lzip.rs encode_dict_size rounds to nearest", "non-representable dictionary size that rounds the wrong way + far match"),
 "C04-1": ("C04", "xz.rs ChecksumCalculator::verify CRC64 arm compares only the low 32 bits", "CRC64-checked file whose damage changes only the upper half of the CRC64"),
 "C04-2": ("C04", "lzip/reader.rs trailer: CRC mismatch AND data-size mismatch required", "damage that changes content but keeps decoded length and member size"),
 "C04-3": ("C04", "xz/reader.rs index count check `!=` -> `<`", "whole blocks deleted from an XZ stream"),
 "C05-1": ("C05", "lib.rs ByteReader::read_u8 uses read() instead of read_exact()", "LZMA2 stream truncated exactly at a chunk boundary (or Interrupted on a one-byte read)"),
 "C05-2": ("C05", "xz/writer.rs SharedWriter::write counts buf.len()", "sink short-writes during a block body write"),
 "C05-3": ("C05", "xz/reader.rs try_start_next_stream `.unwrap_or(0)` on the probe read", "I/O error injected exactly at a stream-padding / first-magic-byte read in multi-stream mode"),
 "C06-1": ("C06", "lz_decoder.rs repeat guard `dist >= full` -> `dist > full`", "a match whose distance equals the number of bytes in the dictionary"),
 "C06-2": ("C06", "xz/reader.rs Index::parse clamp `.min(1024)` -> `.max(1024)`", "an index declaring a huge record count"),
 "C06-3": ("C06", "lzma2_reader.rs state-reset arm moved ahead of the need_props error arm", "stored dict-reset chunk, then an LZMA chunk 0xA0..0xBF before any props-carrying chunk: read spins forever"),
 "C07-1": ("C07", "xz/reader.rs zero-length read guard dropped", "read(&mut []) before the last block is fully read"),
 "C07-2": ("C07", "bcj/x86.rs saved history mask shifted by prev_pos instead of prev_pos-1", "unconvertible E8/E9 followed within 1-2 bytes by a convertible one with a filter-call boundary exactly between them"),
 "C07-3": ("C07", "lzma2_writer.rs write_uncompressed no longer sets state_reset_needed", "LZMA chunk -> stored chunk -> LZMA chunk (write/flush sequences)"),
 "C11-1": ("C11", "delta.rs DeltaReader::read decodes the whole caller buffer instead of buf[..n]", "inner reader returns a short read (0 < n < buf.len()) and then delivers more data"),
 "C11-2": ("C11", "bcj/riscv.rs special-AUIPC check `>=` -> `>`", "a word whose low 14 bits are 0x3117 (auipc x2, imm bits 13:12 = 11) and top five bits 0 or 2"),
 "C11-3": ("C11", "bcj2/decode.rs operand output check `rem < 4` -> `rem <= 4`", "read buffer ending exactly behind a converted CALL/JUMP operand whose top byte differs from the stale byte"),
 "C12-1": ("C12", "xz/reader.rs per-stream state reset only if blocks_processed > 0", "an empty stream followed by a stream with a different check type (multi-stream)"),
 "C12-2": ("C12", "xz/reader.rs `multi && try_start_next_stream()?` operands swapped", "multi-stream disabled and input continuing after the first stream"),
 "C12-3": ("C12", "lzip/reader.rs dictionary size taken from the previous member's header", "a later member with a larger dictionary and a match beyond the predecessor's window"),
 "C14-1": ("C14", "range_dec.rs asm `jae 3f` -> `ja 3f`", "optimization build, x86-64, range exactly 2^24 at the top of a direct-bit iteration"),
 "C14-2": ("C14", "lz_encoder.rs normalize_avx2 no longer normalises the unaligned tail", "std without optimization, AVX2 CPU, ~2 GiB through one encoder, then a hit on a stale tail slot"),
 "C14-3": ("C14", "no_std.rs default_read_exact: Interrupted retry arm removed", "no_std build and a source reporting one transient Interrupted"),
 "C15-1": ("C15", "range_dec.rs asm guard weakened to count.div_ceil(8) AND clamp limit = buf.len() (two cooperating sites)", "hostile LZMA2 chunk cut inside a match with one byte left and range < 2^23"),
 "C15-2": ("C15", "lz/mod.rs extend_match_safe tail loop dereferences before the bound check", "full-length match ending exactly at the end of the window buffer"),
 "C15-3": ("C15", "aligned_memory.rs allocation exact but slice length rounded up", "table length not a multiple of 16 and a normalisation sweep (2 GiB of input)"),
 "C16-1": ("C16", "lzma_reader.rs end-marker branch: trailing rc.normalize() removed", "end-marker stream with range < 2^24 after the marker; only visible if something follows"),
 "C16-2": ("C16", "xz/reader.rs `finished = true` moved inside the multi-stream branch", "single-stream reader, read to Ok(0), then read again"),
 "C16-3": ("C16", "decoder.rs trailing normalize removed, re-added in lzma2_reader.rs only (two cooperating sites)", "LZMA1 stream with declared size, range < 2^24 after the last symbol"),
 "C19-1": ("C19", "xz/writer.rs validation: IA-64 alignment arm removed (falls into the 4-byte default)", "IA-64 BCJ pre-filter with a start offset that is a multiple of 4 but not of 16"),
 "C19-2": ("C19", "lzip.rs encode_dict_size rounds to nearest", "non-representable dictionary size + far match"),
 "C19-3": ("C19", "lz/hc4.rs find_matches `delta2 < cyclic_size` -> `<=`", "HC4, exactly representable dictionary, a repeat at exactly dict_size + 1 with the hash-2 slot not overwritten in between"),
 "C17-1": ("C17", "lzma2_reader.rs decode_props `lc + lp > 4` -> `lc > 4 || lp > 4`", "crafted LZMA2 props byte with lc<=4, lp<=4, lc+lp>=5: literal coder larger than the estimate"),
 "C17-2": ("C17", "lzma_reader.rs get_memory_usage divides before shifting", "LZMA1 header with lc+lp >= 5 (hidden in the slack below that)"),
 "C17-3": ("C17", "bt4.rs get_mem_usage `dict_size * 8 / 1024` (u32 overflow)", "BT4 with dict_size >= 2^29"),
 "C18-1": ("C18", "lzma_writer.rs finish(): expected-size check skipped when an end marker is used", "5-argument LZMAWriter::new with header + end marker + Some(n), fewer than n bytes written"),
 "C18-2": ("C18", "lzip/writer.rs member size raised to dict_size.next_power_of_two()", "non-power-of-two dictionary, member size below the next power of two"),
 "C16-4": ("C16", "xz/reader.rs Index::parse: index byte count for the padding starts from the constant 2 instead of 1 + varint_size(count)", "an XZ stream with 128 or more blocks (record count needs a 2-byte varint)"),
 "C16-5": ("C16", "lz_decoder.rs copy_uncompressed: read_exact replaced by read, byte count ignored", "a stored LZMA2 chunk AND a source that returns a short read inside that chunk"),
 "C16-6": ("C16", "lzma2_reader.rs decode_chunk_header `control >= 0xC0` -> `control > 0xC0` (props byte not read)", "an LZMA chunk whose control byte is exactly 0xC0 (new props, no dict reset, <= 64 KiB): stored chunks followed by a short compressible tail"),
 "C04-4": ("C04", "xz/reader.rs try_start_next_stream: EOF inside the magic of a following stream returns Ok(false) instead of Err", "multi-stream on, >= 2 streams, file cut 1..=5 bytes into a later stream's magic"),
 "C04-5": ("C04", "lzip/reader_mt.rs scan_members: a member start without the LZIP magic ends the scan with break instead of Err", "MT reader, >= 2 members, damaged magic / trailer member_size of a member that is not the last"),
 "C04-6": ("C04", "lzip.rs LZIPHeader::parse `version != 1` -> `version > 1` AND lzip/reader.rs start_next_member version check returns Ok(false) (two cooperating sites)", "version byte exactly 0: the file reads back as empty"),
 "C13-1": ("C13", "lz_encoder.rs LZEncoder::new keep_size_after = extra_size_after + nice_len (instead of match_len_max)", "Normal mode, nice_len < 273, low-entropy data, an optimal-parser run deeper than 3823 + nice_len positions, small writes"),
 "C13-2": ("C13", "lzma2_writer_mt.rs get_next_compressed_chunk: out_of_order_chunks.remove(next) -> pop_first()", ">= 2 workers, >= 2 units, unit k+1 finishing before unit k"),
 "C13-3": ("C13", "lzip/writer.rs write: member clamp subtracts member_start_pos (always 0) instead of current_member_uncompressed_size", "member_size set, input longer than one member, a write call that straddles a member boundary"),
 "C18-3": ("C18", "lzma2_reader_mt.rs independent-chunk test drops `control == 0x01`", "MT reader, a later unit starting with a stored chunk; only chunk_count() is wrong"),
}
for name, (prop, what, needs) in T.items():
    d = os.path.join(V, "seeded", name)
    if not os.path.isdir(d):
        continue
    mp = os.path.join(d, "meta.json")
    m = json.load(open(mp)) if os.path.exists(mp) else {}
    m.update({"seed": name, "property": prop, "change": what, "needs_to_manifest": needs, "origin": "independent sub-agent given only the property text and a scratch worktree (tools/seed_prompt.py)"})
    json.dump(m, open(mp, "w"), indent=1)
# fix-revert seeds
for d in sorted(os.listdir(os.path.join(V, "seeded"))):
    if d.startswith("R-"):
        mp = os.path.join(V, "seeded", d, "meta.json")
        m = json.load(open(mp)) if os.path.exists(mp) else {}
        m.update({"seed": d, "origin": "reverse patch of fix commit %s (brings a repaired defect back)" % d[2:], "change": open(os.path.join(V, "seeded", d, "notes.md")).read().strip()})
        json.dump(m, open(mp, "w"), indent=1)
print("ok")
