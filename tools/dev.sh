#!/bin/bash
# Dev aid: run ./check without touching the registered evidence / replays / log directories.
# usage: tools/dev.sh <tag> <check args...>
cd "$(dirname "$0")/.."
TAG=$1; shift
export VERIF_WIP=1 VERIF_LOG_TAG=.$TAG VERIF_EVIDENCE_DIR=$PWD/.cache/dev-evidence.$TAG VERIF_REPLAY_DIR=$PWD/.cache/dev-replays
exec ./check "$@"
