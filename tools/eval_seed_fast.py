#!/usr/bin/env python3
"""Evaluate a seeded change with the harnesses that can see the files it touches.
usage: tools/eval_seed_fast.py <seed-dir> [--tier quick|thorough] [--all-props]

Selection: every harness (of the given tier) whose fragment is injected into a touched file, or whose `functions` list names
the module of a touched file.  Each selected harness runs under the property check it is registered for (the seed's own
property if the harness lists it among its quick properties, else the harness's first property) with VERIF_ONLY_IDS, i.e.
through the same code path as the registered command restricted to those harnesses.  A harness that reports a VIOLATION here
reports the same VIOLATION in the full `./check <P> --tier <tier>` run.  Writes <seed-dir>/eval.json.
The change is applied in a scratch worktree of /repo's HEAD (never in /repo) and removed afterwards."""
import json, os, re, subprocess, sys, time, fcntl
V = os.path.dirname(os.path.dirname(os.path.abspath(__file__)))
sys.path.insert(0, os.path.join(V, "lib"))
import vk
seed = os.path.abspath(sys.argv[1])
tier = "quick"
if "--tier" in sys.argv:
    tier = sys.argv[sys.argv.index("--tier") + 1]
name = os.path.basename(seed)
prop = name.split("-")[0] if name.startswith("C") else None
patch = open(os.path.join(seed, "patch.diff")).read()
touched = sorted(set(re.findall(r"^\+\+\+ b/(\S+)", patch, re.M)))
mods = set()
for t in touched:
    if t.startswith("src/") and t.endswith(".rs"):
        m = t[4:-3].replace("/", "::")
        mods.add(m)
        mods.add(m.replace("::mod", ""))
frags = vk.load_fragments()
def _hits(ms):
    return any(fr.inject in touched or any(any(f == m or f.startswith(m + "::") for m in ms) for f in h["functions"])
               for fr in frags for h in fr.harnesses)
if not _hits(mods):
    # no harness names the touched module itself: it is driven through its parent (src/filter/bcj/x86.rs -> filter::bcj)
    for t in touched:
        if t.startswith("src/") and "/" in t[4:]:
            mods.add(os.path.dirname(t[4:]).replace("/", "::"))
sel = {}
for fr in frags:
    for h in fr.harnesses:
        if tier == "quick" and h["tier"] != "quick":
            continue
        hit = fr.inject in touched or any(any(f == m or f.startswith(m + "::") for m in mods) for f in h["functions"])
        if not hit:
            continue
        props = h.get("props", [])
        if not props:
            continue
        q = props[:2] if tier == "quick" else props
        p = prop if prop in q else q[0]
        sel.setdefault(p, []).append(h["id"])
if prop in sel and not os.environ.get("VERIF_EVAL_ALL_PROPS"):
    # the question is whether the seed's OWN property check raises the alarm: harnesses registered only for other properties
    # are skipped (set VERIF_EVAL_ALL_PROPS=1 to see cross-property detection too)
    sel = {prop: sel[prop]}
if False:
    pass
if (not sel or "src/lib.rs" in touched) and prop:
    # crate-root helpers are reached from everywhere: fall back to the whole quick/thorough check of the seed's own property
    for fr, h in vk.select(frags, prop, tier):
        if h["id"] not in sel.get(prop, []):
            sel.setdefault(prop, []).append(h["id"])
R = os.environ.get("VERIF_SEED_REPO", "/tmp/seedrepo")
TAG = os.path.basename(R)
os.makedirs(os.path.join(V, ".cache"), exist_ok=True)
lock = open(os.path.join(V, ".cache", TAG + ".lock"), "w")
fcntl.flock(lock, fcntl.LOCK_EX)
head = subprocess.run(["git", "-C", "/repo", "rev-parse", "HEAD"], stdout=subprocess.PIPE, text=True).stdout.strip()
if not os.path.isdir(R):
    subprocess.check_call(["git", "-C", "/repo", "worktree", "add", "-q", "--detach", R, head])
subprocess.check_call(["git", "-C", R, "checkout", "-q", "--detach", head])
subprocess.call(["git", "-C", R, "checkout", "-q", "--", "."])
res = {"seed": name, "head": head[:7], "tier": tier, "touched": touched, "selected": sel, "checks": [], "mode": "touched-files selection"}
try:
    subprocess.check_call(["git", "-C", R, "apply", os.path.join(seed, "patch.diff")])
    for p, ids in sorted(sel.items(), key=lambda x: (x[0] != prop, x[0])):
        t0 = time.time()
        env = dict(os.environ)
        env.update({"VERIF_EVIDENCE_DIR": os.path.join(V, ".cache", "seed-evidence." + TAG), "VERIF_REPO": R, "VERIF_LOG_TAG": "." + TAG,
                    "VERIF_REPLAY_DIR": os.path.join(V, ".cache", "seed-replays"), "VERIF_ONLY_IDS": ",".join(ids)})
        r = subprocess.run([os.path.join(V, "check"), p, "--tier", tier], cwd=V, stdout=subprocess.PIPE, stderr=subprocess.STDOUT, text=True, env=env)
        lines = r.stdout.splitlines()
        c = {"property": p, "exit": r.returncode, "wall_s": round(time.time() - t0), "harnesses": ids,
             "violations": [l for l in lines if l.startswith("VIOLATION")],
             "undecided": [l[:300] for l in lines if l.startswith("UNDECIDED")],
             "caught_by": sorted(set(os.path.basename(l.split("replay=")[1]).rsplit(".", 2)[0] for l in lines if l.startswith("VIOLATION") and "replay=" in l))}
        res["checks"].append(c)
        print(name, p, "exit", r.returncode, c["caught_by"], [u[:140] for u in c["undecided"]][:3], flush=True)
finally:
    subprocess.call(["git", "-C", R, "checkout", "-q", "--", "."])
res["caught"] = any(c["exit"] == 1 for c in res["checks"])
res["caught_own_property"] = any(c["exit"] == 1 and c["property"] == prop for c in res["checks"])
out = "eval.json" if tier == "quick" else "eval_thorough.json"
json.dump(res, open(os.path.join(seed, out), "w"), indent=1)
print(name, "caught:", res["caught"], "own property:", res["caught_own_property"])
