#!/bin/bash
# Reverse patches of the fix commits: the property each one belongs to is taken from KNOWN_FINDINGS.txt (`fixed:` lines).
cd /verif
for d in seeded/R-*; do
  c=$(basename $d); c=${c#R-}
  [ -f $d/eval.json ] && [ -z "${FORCE:-}" ] && continue
  p=$(grep "^fixed: property=" KNOWN_FINDINGS.txt | grep " $c " | sed -E 's/^fixed: property=(C[0-9]+) .*/\1/' | head -1)
  [ -z "$p" ] && { echo "[$c] no fixed: entry"; continue; }
  tools/eval_seed.py $d $p 2>&1 | tail -3 | sed "s/^/[R-$c $p] /"
done
