#!/usr/bin/env python3
"""Engine K: run Kani harness fragments against a scratch copy of /repo's working tree.

See /verif/DESIGN.md section 1.1.  Nothing here decides a property by sampling: the verdict
of each harness is CBMC's verdict over all values of its kani::any() inputs inside the stated
bounds.  Native executions happen only to (a) replay a solver counterexample before it is
reported and (b) validate hand-written stubs / lowered models (see selftest hooks).
"""
import fcntl
import hashlib
import json
import os
import re
import resource
import shutil
import signal
import subprocess
import sys
import tempfile
import threading
import time

VERIF = os.path.dirname(os.path.dirname(os.path.abspath(__file__)))
REPO = os.environ.get("VERIF_REPO", "/repo")
HARNESS_DIR = os.path.join(VERIF, "harness")
CACHE = os.path.join(VERIF, ".cache")
EVIDENCE_DIR = os.environ.get("VERIF_EVIDENCE_DIR") or os.path.join(VERIF, "evidence")
REPLAY_DIR = os.environ.get("VERIF_REPLAY_DIR") or os.path.join(VERIF, "replays")
KNOWN_FILE = os.path.join(VERIF, "KNOWN_FINDINGS.txt")
N_SLOTS = int(os.environ.get("VERIF_SLOTS", "16"))
DEFAULT_MEM_GB = 4.5

TRUSTED_BASE = [
    "rustc (Kani's pinned nightly) MIR generation",
    "Kani 0.68.0 MIR->GOTO translation and its models of alloc/core intrinsics",
    "CBMC 6.11.0 symbolic execution + CaDiCaL SAT back end",
    "crates crc / sha2 are executed symbolically, not re-specified",
    "harness-side reference models and environment stubs (Sink/Src) listed per harness",
]


def log(*a):
    print(*a, file=sys.stderr, flush=True)


# --------------------------------------------------------------------------- fragments

class Fragment:
    def __init__(self, path):
        self.path = path
        self.name = os.path.splitext(os.path.basename(path))[0]
        self.meta = {}
        self.harnesses = []
        self.body = ""
        self._parse()

    def _parse(self):
        body = []
        with open(self.path) as f:
            for line in f:
                s = line.strip()
                if s.startswith("//@@ "):
                    self.meta.update(json.loads(s[5:]))
                elif s.startswith("//@ "):
                    h = json.loads(s[4:])
                    h["fragment"] = self.name
                    self.harnesses.append(h)
                    body.append(line)
                else:
                    body.append(line)
        self.body = "".join(body)
        self.inject = self.meta["inject"]
        self.mod = self.meta.get("mod", "verif_" + self.name)
        self.features = self.meta.get("features", "encoder")
        self.always = self.meta.get("always", False)
        self.raw = self.meta.get("raw", False)
        expanded = []
        for h in self.harnesses:
            fv = h.pop("feature_variants", None)
            if fv:
                for ft in fv:
                    c = dict(h)
                    c["features"] = ft
                    c["id"] = h["name"] + ("@opt" if "optimization" in ft else "@base")
                    expanded.append(c)
            else:
                expanded.append(h)
        if not os.environ.get("VERIF_WIP"):
            # per-harness work-in-progress flag: not registered (dev runs set VERIF_WIP=1)
            expanded = [h for h in expanded if not h.get("wip")]
        self.harnesses = expanded
        for h in self.harnesses:
            h.setdefault("id", h["name"])
            h.setdefault("features", self.features)
            h.setdefault("tier", "quick")
            h.setdefault("timeout", 600)
            h.setdefault("mem_gb", DEFAULT_MEM_GB)
            h.setdefault("stubbing", self.meta.get("stubbing", False))
            h.setdefault("twin", False)
            h.setdefault("functions", self.meta.get("functions", []))
            h.setdefault("bounds", "")
            h.setdefault("assumes", [])
            h.setdefault("stubs", self.meta.get("stubs", []))
            h.setdefault("obligation", "")
            h["qualified"] = self.module_path() + "::" + h["name"]

    def module_path(self):
        p = self.inject
        assert p.startswith("src/") and p.endswith(".rs")
        p = p[4:-3]
        parts = [x for x in p.split("/") if x not in ("lib", "mod")]
        return "::".join(parts + [self.mod])

    def wrapped(self):
        if self.raw:
            return "\n" + self.body + "\n"
        pre = (
            "\n#[cfg(kani)]\n#[allow(unused_imports, unused_variables, unused_mut, dead_code, "
            "non_snake_case, clippy::all)]\nmod %s {\n    use super::*;\n    use alloc::vec;\n"
            "    use alloc::vec::Vec;\n    use alloc::boxed::Box;\n" % self.mod
        )
        if self.name != "common":
            pre += "    use crate::verif_common::*;\n"
        return pre + self.body + "\n// @@VERIF-END %s\n}\n" % self.mod


def load_fragments():
    frags = []
    for fn in sorted(os.listdir(HARNESS_DIR)):
        if fn.endswith(".rs"):
            fr = Fragment(os.path.join(HARNESS_DIR, fn))
            # work-in-progress fragments are invisible to the registered commands (dev runs set VERIF_WIP=1)
            if fr.meta.get("wip") and not os.environ.get("VERIF_WIP"):
                continue
            frags.append(fr)
    return frags


# --------------------------------------------------------------------------- known findings

class Known:
    """KNOWN_FINDINGS.txt: lines
       known: property=<id> harness=<name> function=<fn> description=<text> :: <what fails>
       fixed: property=<id> <commit> <what failed>
    keyed by role (harness, failing function, check description), never by line number or value."""

    def __init__(self):
        self.known = []
        self.fixed = []
        if not os.path.exists(KNOWN_FILE):
            return
        for line in open(KNOWN_FILE):
            s = line.strip()
            if not s or s.startswith("#"):
                continue
            if s.startswith("fixed:"):
                self.fixed.append(s)
                continue
            if s.startswith("known:"):
                head, _, what = s[6:].partition(" :: ")
                m = re.match(r"\s*property=(\S+)\s+harness=(\S+)\s+function=(\S+)\s+description=(.*)$", head.strip())
                if not m:
                    raise SystemExit("bad line in KNOWN_FINDINGS.txt: " + s)
                self.known.append({
                    "property": m.group(1), "harness": m.group(2), "function": m.group(3),
                    "description": m.group(4).strip(), "what": what.strip(),
                })

    def match(self, prop, harness, fail):
        for k in self.known:
            if k["property"] != prop or k["harness"] != harness:
                continue
            if k["function"] != "*" and k["function"] != fail.get("function", ""):
                continue
            if k["description"] != fail.get("description", ""):
                continue
            return k
        return None


# --------------------------------------------------------------------------- scratch copy

def make_scratch(fragments, extra_writer=None):
    base = os.environ.get("VERIF_SCRATCH_BASE") or tempfile.gettempdir()
    d = tempfile.mkdtemp(prefix="lzverif.", dir=base)
    src = os.path.join(d, "r")
    subprocess.check_call(["rsync", "-a", "--exclude", "/target", "--exclude", "/.git", REPO + "/", src + "/"])
    # dev-dependencies / benches are irrelevant for the lib build and only slow native replays
    for fr in fragments:
        p = os.path.join(src, fr.inject)
        if not os.path.exists(p):
            raise Undecided("injection target %s missing in /repo" % fr.inject)
        text = fr.wrapped()
        gen = fr.meta.get("generator")
        if gen:
            import generators
            try:
                generated, info = getattr(generators, gen)(src)
            except Exception as e:  # LowerError or a parse failure: never guess
                raise Undecided("generator %s failed on the current source: %s" % (gen, e))
            GENERATED_INFO[fr.name] = info
            text = text.replace("/*@GENERATED@*/", generated)
        with open(p, "a") as f:
            f.write(text)
    if extra_writer:
        extra_writer(src)
    return d, src


GENERATED_INFO = {}


class Undecided(Exception):
    pass


# --------------------------------------------------------------------------- slots

SLOT_GB = float(os.environ.get("VERIF_SLOT_GB", "4.5"))


class Slot:
    """A job holds ceil(mem_gb / SLOT_GB) of the N_SLOTS global slot locks (flock, shared by all concurrently running
    ./check processes), so that the sum of the RLIMIT_AS limits of running CBMC processes stays below N_SLOTS*SLOT_GB."""

    def __init__(self):
        self.fds = []
        self.dir = None

    def acquire(self, mem_gb=SLOT_GB):
        os.makedirs(CACHE, exist_ok=True)
        need = max(1, min(N_SLOTS, int(-(-mem_gb // SLOT_GB))))
        while True:
            gate = os.open(os.path.join(CACHE, "acquire.lock"), os.O_CREAT | os.O_RDWR)
            fcntl.flock(gate, fcntl.LOCK_EX)
            got = []
            try:
                for k in range(N_SLOTS):
                    d = os.path.join(CACHE, "slot%02d" % k)
                    os.makedirs(d, exist_ok=True)
                    fd = os.open(os.path.join(d, "lock"), os.O_CREAT | os.O_RDWR)
                    try:
                        fcntl.flock(fd, fcntl.LOCK_EX | fcntl.LOCK_NB)
                    except OSError:
                        os.close(fd)
                        continue
                    got.append((fd, d))
                    if len(got) == need:
                        break
                if len(got) == need:
                    self.fds = [g[0] for g in got]
                    self.dir = got[0][1]
                    return self
                for fd, _ in got:
                    fcntl.flock(fd, fcntl.LOCK_UN)
                    os.close(fd)
            finally:
                fcntl.flock(gate, fcntl.LOCK_UN)
                os.close(gate)
            time.sleep(1.0)

    def release(self):
        for fd in self.fds:
            fcntl.flock(fd, fcntl.LOCK_UN)
            os.close(fd)
        self.fds = []


# --------------------------------------------------------------------------- running kani

CHECK_RE = re.compile(r"^Check (\d+): (.*)$")


def parse_kani_output(text):
    checks = []
    cur = None
    for line in text.splitlines():
        m = CHECK_RE.match(line)
        if m:
            cur = {"id": m.group(2), "status": "", "description": "", "function": "", "location": ""}
            checks.append(cur)
            continue
        if cur is not None:
            s = line.strip()
            if s.startswith("- Status:"):
                cur["status"] = s.split(":", 1)[1].strip()
            elif s.startswith("- Description:"):
                cur["description"] = s.split(":", 1)[1].strip().strip('"')
            elif s.startswith("- Location:"):
                loc = s.split(":", 1)[1].strip()
                cur["location"] = loc
                mm = re.search(r" in function (.*)$", loc)
                if mm:
                    cur["function"] = mm.group(1).strip()
            elif s == "" or s.startswith("SUMMARY"):
                cur = None
    res = {
        "checks_total": sum(1 for c in checks if not c["id"].endswith(tuple(".cover.%d" % i for i in range(1, 200)))),
        "failures": [c for c in checks if c["status"] == "FAILURE"],
        "undetermined": [c for c in checks if c["status"] == "UNDETERMINED"],
        "covers": [c for c in checks if c["status"] in ("SATISFIED", "UNSATISFIABLE", "UNREACHABLE") and ".cover." in c["id"]],
        "successful": "VERIFICATION:- SUCCESSFUL" in text,
        "failed": "VERIFICATION:- FAILED" in text,
        "n_checks": len(checks),
    }
    m = re.search(r"Verification Time: ([0-9.]+)s", text)
    res["verification_time_s"] = float(m.group(1)) if m else None
    m = re.search(r"Runtime Symex: ([0-9.e+-]+)s", text)
    res["symex_s"] = float(m.group(1)) if m else None
    m = re.search(r"Runtime Solver: ([0-9.e+-]+)s", text)
    res["solver_s"] = float(m.group(1)) if m else None
    m = re.search(r"Runtime decision procedure: ([0-9.e+-]+)s", text)
    res["decision_s"] = float(m.group(1)) if m else None
    m = re.search(r"size of program expression: (\d+) steps", text)
    res["ssa_steps"] = int(m.group(1)) if m else None
    m = re.search(r"Generated (\d+) VCC\(s\), (\d+) remaining after simplification", text)
    res["vccs"] = int(m.group(1)) if m else None
    res["vccs_remaining"] = int(m.group(2)) if m else None
    m = re.search(r"VERIF_MAXRSS_KB=(\d+)", text)
    res["max_rss_mb"] = int(m.group(1)) // 1024 if m else None
    m = re.search(r"(\d+) variables, (\d+) clauses", text)
    if m:
        res["sat_vars"], res["sat_clauses"] = int(m.group(1)), int(m.group(2))
    # concrete playback tests
    tests = []
    for m in re.finditer(r"Concrete playback unit test for `([^`]*)`:\n```\n(.*?)\n```", text, re.S):
        code = m.group(2)
        mm = re.search(r"Check for `(\w+)`: \"(.*)\"", code)
        tests.append({"harness": m.group(1), "kind": mm.group(1) if mm else "", "check": mm.group(2).strip('"') if mm else "", "code": code})
    res["playback"] = tests
    return res


def _limits(mem_gb):
    def f():
        os.setsid()
        lim = int(mem_gb * (1 << 30))
        resource.setrlimit(resource.RLIMIT_AS, (lim, lim))
    return f


def run_cmd(cmd, cwd, timeout, mem_gb, env=None, logfile=None):
    e = dict(os.environ)
    e["CARGO_NET_OFFLINE"] = "true"
    e.pop("RUSTFLAGS", None)
    if env:
        e.update(env)
    t0 = time.time()
    p = subprocess.Popen(cmd, cwd=cwd, env=e, stdout=subprocess.PIPE, stderr=subprocess.STDOUT,
                         preexec_fn=_limits(mem_gb), text=True, errors="replace")
    timed_out = False
    try:
        out, _ = p.communicate(timeout=timeout)
    except subprocess.TimeoutExpired:
        timed_out = True
        try:
            os.killpg(p.pid, signal.SIGKILL)
        except ProcessLookupError:
            pass
        out, _ = p.communicate()
    if logfile:
        with open(logfile, "w") as f:
            f.write(out)
    return p.returncode, out, timed_out, time.time() - t0


TIME_PREFIX = ["/usr/bin/time", "-f", "VERIF_MAXRSS_KB=%M"] if os.path.exists("/usr/bin/time") else []


def kani_cmd(h, slot_dir, playback=True):
    cmd = TIME_PREFIX + ["cargo", "kani", "--harness", h["qualified"], "--exact", "--no-default-features",
           "--features", h["features"], "--target-dir", os.path.join(slot_dir, "target")]
    if h.get("stubbing"):
        cmd += ["-Z", "stubbing"]
    if playback:
        cmd += ["-Z", "concrete-playback", "--concrete-playback=print"]
    for a in h.get("kani_args", []):
        cmd.append(a)
    return cmd


def strip_noise(out):
    keep = []
    for l in out.splitlines():
        if l.startswith("warning") or re.match(r"^\s*(\||-->|= note|= help)", l):
            continue
        keep.append(l)
    return "\n".join(keep)


def run_harness(h, src, logdir):
    slot = Slot().acquire(h["mem_gb"])
    try:
        # pass 1 without concrete playback: `--concrete-playback` makes Kani drop CBMC's --slice-formula and add
        # --trace, which multiplies memory (measured: 98 K SAT variables vs. OOM at 24 GB for the same harness)
        cmd = kani_cmd(h, slot.dir, playback=False)
        logfile = os.path.join(logdir, h["id"] + ".log")
        rc, out, timed_out, wall = run_cmd(cmd, src, h["timeout"], h["mem_gb"], logfile=logfile)
        pr1 = parse_kani_output(out)
        real_fail = [f for f in pr1["failures"] if "unwinding assertion" not in f["description"]]
        unw_fail = [f for f in pr1["failures"] if "unwinding assertion" in f["description"]]
        if not timed_out and pr1["failed"] and real_fail and not unw_fail \
                and not h.get("no_inputs") and h.get("replay") != "model" \
                and not re.search(r"CBMC failed with status|ut of memory", out):
            # pass 2 only for failing harnesses: obtain the concrete counterexample as a unit test
            cmd2 = kani_cmd(h, slot.dir, playback=True)
            # without --slice-formula the instance is large (27 M variables / 24 GB for a 4.5 GB harness; kani-driver 23 GB to parse a trace):
            # the playback pass may use most of the machine (62 GB, no swap)
            # ... and slow (--trace, no formula slicing: measured 10-12x the time of pass 1): its own, longer time limit
            rc2, out2, to2, wall2 = run_cmd(cmd2, src, min(3600, max(1800, 2 * h["timeout"])), max(44, h.get("playback_mem_gb", 0)), logfile=logfile + ".playback")
            wall += wall2
            pb = parse_kani_output(out2)["playback"] if not to2 else []
        else:
            pb = []
    finally:
        slot.release()
    r = {"harness": h["id"], "wall_s": round(wall, 1), "rc": rc, "timed_out": timed_out}
    if timed_out:
        r["verdict"] = "UNDECIDED"
        r["reason"] = "timeout after %ds" % h["timeout"]
        return r
    pr = parse_kani_output(out)
    r.update({k: pr[k] for k in ("n_checks", "verification_time_s", "symex_s", "solver_s", "decision_s", "max_rss_mb", "sat_vars", "sat_clauses", "ssa_steps", "vccs", "vccs_remaining") if k in pr})
    r["covers_satisfied"] = sum(1 for c in pr["covers"] if c["status"] == "SATISFIED")
    r["covers_total"] = len(pr["covers"])
    r["covers"] = [{"description": c["description"], "status": c["status"]} for c in pr["covers"]]
    r["failures"] = [{"description": c["description"], "function": c["function"], "location": c["location"], "id": c["id"]} for c in pr["failures"]]
    r["playback"] = pb
    if re.search(r"CBMC failed with status|Out of memory|ran out of memory|std::bad_alloc|Killed|internal compiler error|error: could not compile", out) or rc is None or rc < 0:
        r["verdict"] = "UNDECIDED"
        r["reason"] = "resource/tool failure (OOM under the %s GB limit, crash or compile error): %s" % (h["mem_gb"], strip_noise(out)[-700:])
        return r
    if not pr["successful"] and not pr["failed"]:
        r["verdict"] = "UNDECIDED"
        tail = strip_noise(out)[-1500:]
        r["reason"] = "no verdict from Kani/CBMC (compile error, OOM, ICE or crash): " + tail
        return r
    unwinding = [f for f in pr["failures"] if "unwinding assertion" in f["description"]]
    if unwinding:
        r["verdict"] = "UNDECIDED"
        r["reason"] = "unwinding assertion failed (bound too small): " + unwinding[0]["location"]
        return r
    unsupported = [f for f in pr["failures"] if "is not currently supported by Kani" in f["description"] or "unsupported" in f["id"]]
    if unsupported:
        r["verdict"] = "UNDECIDED"
        r["reason"] = "reached a construct Kani does not support: " + unsupported[0]["description"][:200]
        return r
    if pr["failed"] and not pr["failures"]:
        # FAILED with no FAILURE check: undetermined checks / unsatisfied covers only
        if pr["undetermined"]:
            r["verdict"] = "UNDECIDED"
            r["reason"] = "undetermined checks: " + pr["undetermined"][0]["description"][:200]
            return r
    if pr["failures"]:
        r["verdict"] = "FAILED"
        return r
    # successful: vacuity guard
    unsat = [c for c in pr["covers"] if c["status"] != "SATISFIED"]
    if unsat or not pr["covers"]:
        r["verdict"] = "UNDECIDED"
        r["reason"] = "vacuity guard: cover not satisfied or absent: " + (unsat[0]["description"] if unsat else "no cover")
        return r
    r["verdict"] = "DISCHARGED"
    return r


# --------------------------------------------------------------------------- native replay

def native_replay(h, fragment, src, test_code, logdir, release=False):
    """Insert the concrete-playback test generated by Kani into the scratch copy's harness module and run
    it natively with `cargo kani playback`.  Returns (reproduced: bool|None, tail of output)."""
    p = os.path.join(src, fragment.inject)
    text = open(p).read()
    mname = re.search(r"fn (kani_concrete_playback_\w+)\(", test_code)
    if not mname:
        return None, "no test function in playback code"
    tname = mname.group(1)
    if tname not in text:
        marker = "mod %s {" % fragment.mod
        i = text.find(marker)
        if i < 0:
            return None, "harness module not found in scratch copy"
        # append the test at the end of the harness's own module (several fragments may share one source file)
        endmark = "// @@VERIF-END %s\n" % fragment.mod
        j = text.find(endmark, i)
        if j >= 0:
            text = text[:j] + test_code + "\n" + text[j:]
        else:
            j = text.rstrip().rfind("}")
            text = text[:j] + "\n" + test_code + "\n}\n"
        with open(p, "w") as f:
            f.write(text)
    env = {"CARGO_TARGET_DIR": os.path.join(CACHE, "playback-target" + ("-rel" if release else ""))}
    if release:
        env.update({"CARGO_PROFILE_DEV_OPT_LEVEL": "3", "CARGO_PROFILE_DEV_OVERFLOW_CHECKS": "false",
                    "CARGO_PROFILE_DEV_DEBUG_ASSERTIONS": "false", "CARGO_PROFILE_TEST_OPT_LEVEL": "3", "CARGO_PROFILE_TEST_OVERFLOW_CHECKS": "false", "CARGO_PROFILE_TEST_DEBUG_ASSERTIONS": "false"})
    cmd = ["cargo", "kani", "playback", "-Z", "concrete-playback", "--no-default-features",
           "--features", h["features"], "--lib", "--", tname, "--exact", "--test-threads", "1"]
    # --exact wants the full path
    cmd = cmd[:-4] + [tname]
    lock = open(os.path.join(CACHE, "playback.lock"), "w")
    fcntl.flock(lock, fcntl.LOCK_EX)
    try:
        rc, out, timed_out, wall = run_cmd(cmd, src, 900, 16, env=env,
                                           logfile=os.path.join(logdir, h["id"] + (".replay-rel.log" if release else ".replay.log")))
    finally:
        fcntl.flock(lock, fcntl.LOCK_UN)
        lock.close()
    if timed_out:
        return None, "native replay timed out"
    m = re.search(r"test result: (\w+)\. (\d+) passed; (\d+) failed", out)
    if not m:
        return None, "native replay did not build/run: " + strip_noise(out)[-800:]
    if int(m.group(2)) + int(m.group(3)) == 0:
        return None, "native replay matched no test"
    panic = re.search(r"panicked at ([^\n]*)\n([^\n]*(?:\n[^\n]*)?)", out)
    return (int(m.group(3)) > 0), (panic.group(0) if panic else m.group(0))


# --------------------------------------------------------------------------- driver

def select(frags, prop, tier):
    hs = []
    for fr in frags:
        for h in fr.harnesses:
            props = h.get("props", [])
            if prop in props:
                # quick tier: a quick harness runs under its two most relevant properties (the first two it lists);
                # thorough tier: every harness that is evidence for the property
                if tier == "thorough" or (h["tier"] == "quick" and prop in props[:2]):
                    hs.append((fr, h))
    return hs


def run_property(prop, tier, seed, selftests=None, only=None):
    t0 = time.time()
    frags = load_fragments()
    sel = select(frags, prop, tier)
    if only:
        sel = [(f, h) for f, h in sel if only in h["id"]]
    ids = os.environ.get("VERIF_ONLY_IDS")
    if ids:
        # dev / seed-evaluation aid: run exactly these harness ids (of this property and tier)
        want = set(ids.split(","))
        sel = [(f, h) for f, h in sel if h["id"] in want]
    if not sel:
        raise SystemExit("no harness registered for %s" % prop)
    need = {fr.name for fr, _ in sel}
    use = [fr for fr in frags if fr.always or fr.name in need]
    # extra dependencies named by fragments
    deps = set()
    for fr in use:
        deps.update(fr.meta.get("needs", []))
    use = [fr for fr in frags if fr.always or fr.name in need or fr.name in deps]
    known = Known()
    logdir = os.path.join(CACHE, "logs", prop + "." + tier + os.environ.get("VERIF_LOG_TAG", ""))
    shutil.rmtree(logdir, ignore_errors=True)
    os.makedirs(logdir, exist_ok=True)
    scratch = None
    results = []
    violations = []
    undecided = []
    known_hits = []
    selftest_reports = []
    try:
        scratch, src = make_scratch(use)
        # native self-validation of stubs / models (not a deciding step)
        for fr in use:
            for st in fr.meta.get("selftests", []):
                if st.get("for") and not (set(st["for"]) & need):
                    continue
                ok, msg = run_selftest(st, src, logdir, seed)
                selftest_reports.append({"name": st["name"], "ok": ok, "detail": msg})
                if not ok:
                    undecided.append("selftest %s failed: %s" % (st["name"], msg))
        if not undecided:
            order = sorted(sel, key=lambda x: (-x[1]["mem_gb"], -x[1]["timeout"]))
            lock = threading.Lock()
            threads = []

            def work(fr, h):
                r = run_harness(h, src, logdir)
                with lock:
                    results.append((fr, h, r))
                    log("[%s] %-44s %-10s %6.1fs %s" % (prop, h["id"], r["verdict"], r["wall_s"],
                                                       r.get("reason", "")[:300].replace("\n", " | ")))
            for fr, h in order:
                t = threading.Thread(target=work, args=(fr, h))
                t.start()
                threads.append(t)
            for t in threads:
                t.join()
            # post-process verdicts
            for fr, h, r in sorted(results, key=lambda x: x[1]["id"]):
                if h["twin"]:
                    # mutation twin: must FAIL, otherwise the harness family is vacuous
                    if r["verdict"] == "FAILED":
                        r["verdict"] = "TWIN-OK"
                    elif r["verdict"] == "DISCHARGED":
                        r["verdict"] = "UNDECIDED"
                        r["reason"] = "mutation twin unexpectedly verified (vacuous harness family)"
                        undecided.append(h["id"] + ": " + r["reason"])
                    else:
                        undecided.append(h["id"] + ": " + r.get("reason", ""))
                    continue
                if r["verdict"] == "UNDECIDED":
                    undecided.append(h["id"] + ": " + r.get("reason", ""))
                elif r["verdict"] == "FAILED":
                    unlisted = []
                    for f in r["failures"]:
                        k = known.match(prop, h["id"], f)
                        if k:
                            f["known"] = k["what"]
                            if k not in [x[0] for x in known_hits]:
                                known_hits.append((k, h["id"]))
                        else:
                            unlisted.append(f)
                    if not unlisted:
                        r["verdict"] = "KNOWN-FINDING"
                        continue
                    # replay before reporting
                    rep = replay_failure(prop, fr, h, r, unlisted, src, logdir)
                    if rep["reproduced"]:
                        violations.append(rep)
                    else:
                        r["verdict"] = "UNDECIDED"
                        r["reason"] = "counterexample did not reproduce natively: " + rep.get("detail", "")
                        undecided.append(h["id"] + ": " + r["reason"])
    except Undecided as e:
        undecided.append(str(e))
    finally:
        if scratch and not os.environ.get("VERIF_KEEP_SCRATCH"):
            shutil.rmtree(scratch, ignore_errors=True)
        elif scratch:
            log("scratch kept at", scratch)
    wall = time.time() - t0
    write_evidence(prop, tier, seed, sel, results, violations, undecided, known_hits, selftest_reports, wall)
    for k, hn in known_hits:
        print("KNOWN-FINDING: property=%s %s: %s" % (prop, hn, k["what"]))
    for v in violations:
        print("VIOLATION property=%s replay=%s" % (prop, v["path"]))
    for u in undecided:
        print("UNDECIDED property=%s %s" % (prop, u[:600].replace("\n", " | ")))
    nd = sum(1 for _, _, r in results if r["verdict"] in ("DISCHARGED", "TWIN-OK"))
    print("SUMMARY property=%s tier=%s harnesses=%d discharged=%d known=%d violations=%d undecided=%d wall=%.0fs" % (
        prop, tier, len(sel), nd, sum(1 for _, _, r in results if r["verdict"] == "KNOWN-FINDING"),
        len(violations), len(undecided), wall))
    if violations:
        return 1
    if undecided:
        return 2
    return 0


def _loc_in(location, detail):
    """True if the native panic message names the source location of the failing check (file suffix:line:col).  Needed
    for checks whose description is Kani's placeholder for a runtime-formatted message (e.g. capacity_overflow)."""
    m = re.match(r"\s*(\S+?):(\d+):(\d+)", location or "")
    if not m:
        return False
    path = m.group(1)
    parts = [x for x in path.split("/") if x not in ("..", ".", "")]
    suffix = "/".join(parts[-3:])
    return bool(suffix) and ("%s:%s:%s" % (suffix, m.group(2), m.group(3))) in detail


def replay_failure(prop, fr, h, r, unlisted, src, logdir):
    os.makedirs(os.path.join(REPLAY_DIR, prop), exist_ok=True)
    # choose the playback test belonging to the first unlisted failure that has one
    test = None
    for f in unlisted:
        for t in r.get("playback", []):
            if t["kind"] != "cover" and t["check"] == f["description"]:
                test = (f, t)
                break
        if test:
            break
    rep = {"property": prop, "harness": h["id"], "qualified": h["qualified"], "features": h["features"],
           "failures": unlisted, "fragment": fr.name, "functions": h["functions"], "bounds": h["bounds"]}
    if h.get("replay") == "model":
        # The harness replaces functions of the real code with recording / environment stubs (#[kani::stub]).  Stubs exist only
        # inside the model checker: a native run executes the real functions instead, so the counterexample cannot be replayed
        # natively.  It is reported as a model-level violation (solver verdict on the real code + the listed stubs).
        rep["reproduced"] = True
        rep["kind"] = "model-level"
        rep["detail"] = ("stub-dependent harness: the solver's counterexample is reported without native replay (the environment stubs "
                         "listed in the harness metadata do not exist in a native build)")
        rep["stubs"] = h.get("stubs", [])
        key = hashlib.sha1((h["id"] + "|" + "|".join(sorted(f["description"] + "@" + f["function"] for f in unlisted))).encode()).hexdigest()[:10]
        path = os.path.join(REPLAY_DIR, prop, "%s.%s.json" % (h["id"], key))
        rep["path"] = path
        with open(path, "w") as fo:
            json.dump(rep, fo, indent=1)
        return rep
    ub_only = all(("pointer" in f["description"] or "dereference" in f["description"] or "out of bounds" in f["description"] and "index" not in f["description"]) for f in unlisted)
    fallback = False
    if test is None and not r.get("playback"):
        fallback = True
        # a harness without symbolic inputs gets no playback test from Kani: replay it with an empty value list
        fn = h["name"]
        code = ("#[test]\nfn kani_concrete_playback_%s_noinputs() {\n    let concrete_vals: Vec<Vec<u8>> = vec![];\n"
                "    kani::concrete_playback_run(concrete_vals, %s);\n}" % (fn, fn))
        test = (unlisted[0], {"code": code, "kind": "assertion", "check": unlisted[0]["description"]})
    if test is None:
        rep["reproduced"] = bool(ub_only and prop == "C15")
        rep["detail"] = "Kani produced no concrete playback test for the failing check (the playback pass ran out of memory / time, or the trace omitted it)"
        rep["kind"] = "ub-candidate" if rep["reproduced"] else "no-playback"
    else:
        f, t = test
        rep["playback_test"] = t["code"]
        ok, detail = native_replay(h, fr, src, t["code"], logdir)
        if ok and not any((x["description"] and x["description"] in detail) or _loc_in(x.get("location", ""), detail)
                          for x in unlisted):
            # the native run panicked, but not with the message of a failing check: do not count it
            ok = False
            detail = "native panic does not match any failing check: " + detail
            if fallback and not h.get("no_inputs"):
                detail = ("Kani produced no concrete playback test for the failing check (the playback pass ran out of "
                          "memory / time, or the trace omitted it) and a replay with an empty input list did not reach it: " + detail)
        rep["reproduced"] = bool(ok)
        rep["detail"] = detail
        rep["profile"] = "dev"
        if fallback and not ok and not h.get("no_inputs"):
            # Kani's second pass yielded no concrete values at all (measured: "The concrete playback feature did not generate unit
            # tests, but there were failing harnesses" after 33 GB; or the unsliced instance exceeded the machine).  The verdict of
            # pass 1 is still the solver's verdict over the real code: it is reported, marked as not natively replayed.
            rep["reproduced"] = True
            rep["kind"] = "solver-verdict-only"
            rep["detail"] = ("CBMC decided the listed checks FAILED on the real code; Kani could not produce the concrete values "
                             "(playback pass out of memory / time, or Kani emitted no test), so there is no native replay: " + detail)[:1500]
        if ok:
            ok2, detail2 = native_replay(h, fr, src, t["code"], logdir, release=True)
            rep["reproduces_in_release"] = ok2
            rep["release_detail"] = detail2
        elif ok is False and ub_only and prop == "C15":
            rep["reproduced"] = True
            rep["kind"] = "ub-candidate"
    key = hashlib.sha1((h["id"] + "|" + "|".join(sorted(f["description"] + "@" + f["function"] for f in unlisted))).encode()).hexdigest()[:10]
    path = os.path.join(REPLAY_DIR, prop, "%s.%s.json" % (h["id"], key))
    rep["path"] = path
    with open(path, "w") as fo:
        json.dump(rep, fo, indent=1)
    return rep


def run_selftest(st, src, logdir, seed):
    """Native validation of hand-written stubs / lowered models: `cargo test` in the scratch copy on a test
    injected by a fragment under cfg(test).  Failure => UNDECIDED (never a violation)."""
    env = {"CARGO_TARGET_DIR": os.path.join(CACHE, "selftest-target"), "VERIF_SEED": str(seed)}
    cmd = ["cargo", "test", "--offline", "--lib", "--no-default-features", "--features", st["features"], st["filter"]]
    lock = open(os.path.join(CACHE, "selftest.lock"), "w")
    fcntl.flock(lock, fcntl.LOCK_EX)
    try:
        rc, out, timed_out, wall = run_cmd(cmd, src, 900, 16, env=env, logfile=os.path.join(logdir, "selftest." + st["name"] + ".log"))
    finally:
        fcntl.flock(lock, fcntl.LOCK_UN)
        lock.close()
    m = re.search(r"test result: (\w+)\. (\d+) passed; (\d+) failed", out)
    if timed_out or not m:
        return False, "did not build/run: " + strip_noise(out)[-600:]
    if int(m.group(2)) < st.get("min_tests", 1) or int(m.group(3)) > 0:
        return False, m.group(0) + " " + strip_noise(out)[-600:]
    return True, m.group(0) + " (%.0fs)" % wall


def write_evidence(prop, tier, seed, sel, results, violations, undecided, known_hits, selftests, wall):
    os.makedirs(EVIDENCE_DIR, exist_ok=True)
    byname = {h["id"]: r for _, h, r in results}
    samples = []
    total_checks = 0
    covers = 0
    nd = 0
    solver_s = 0.0
    functions = set()
    stubs = set()
    assumes = set()
    ssa_steps = 0
    vccs = 0
    for fr, h in sel:
        r = byname.get(h["id"], {"verdict": "NOT-RUN"})
        total_checks += r.get("n_checks", 0) or 0
        covers += r.get("covers_satisfied", 0) or 0
        if r["verdict"] in ("DISCHARGED", "TWIN-OK"):
            nd += 1
        solver_s += r.get("verification_time_s") or 0.0
        ssa_steps += r.get("ssa_steps") or 0
        vccs += r.get("vccs") or 0
        functions.update(h["functions"])
        stubs.update(h["stubs"])
        assumes.update(h["assumes"])
        s = {
            "harness": h["qualified"], "id": h["id"], "obligation": h["obligation"], "tier": h["tier"], "features": h["features"],
            "functions_encoded": h["functions"], "bounds": h["bounds"], "assumes": h["assumes"], "stubs": h["stubs"],
            "verdict": r["verdict"], "cbmc_checks": r.get("n_checks"), "covers": r.get("covers"),
            "wall_s": r.get("wall_s"), "cbmc_time_s": r.get("verification_time_s"), "symex_s": r.get("symex_s"),
            "solver_s": r.get("solver_s"), "sat_vars": r.get("sat_vars"), "sat_clauses": r.get("sat_clauses"), "max_rss_mb": r.get("max_rss_mb"),
            "ssa_steps": r.get("ssa_steps"), "vccs": r.get("vccs"),
            "mutation_twin": h["twin"],
        }
        if r.get("reason"):
            s["reason"] = r["reason"][:500]
        if r.get("failures"):
            s["failed_checks"] = [{k: f.get(k) for k in ("description", "function", "known")} for f in r["failures"]][:10]
        wit = [t["code"] for t in r.get("playback", []) if t["kind"] == "cover"][:1]
        if wit:
            mm = re.search(r"vec!\[\n(.*?)\n\s*\];", wit[0], re.S)
            s["cover_witness_values"] = [x.strip() for x in (mm.group(1).splitlines() if mm else [])][:12]
        samples.append(s)
    ev = {
        "property_id": prop, "tier": tier, "seed": seed, "level": "model_checking",
        "coverage": {
            "evaluations": total_checks,
            "distinct_nontrivial": covers,
            "rule": "evaluations = CBMC properties (assertions, overflow/bounds/pointer checks, covers) decided by the SAT solver "
                    "in this run, summed over harnesses; each is decided for ALL values of the harness's kani::any() inputs within "
                    "the stated bounds. distinct_nontrivial = number of kani::cover! reachability witnesses the solver found "
                    "SATISFIED (each one a distinct non-trivial region of the input space shown reachable; guards against vacuous passes).",
            "samples": samples,
            # the model-checking keys of the evidence schema, as CBMC measures them on this run
            "states": ssa_steps,
            "transitions": vccs,
            "traces_validated_against_impl": len(violations) + sum(1 for st in selftests if st.get("ok")),
            "states_transitions_rule": "states = steps of the symbolic program (SSA equation) CBMC built from the compiled real code, summed over "
                                       "the harnesses of this run ('size of program expression: N steps'); each step is one symbolic program state "
                                       "transformer covering all values of the symbolic inputs. transitions = verification conditions generated from "
                                       "those steps ('Generated N VCC(s)') before simplification. traces_validated_against_impl = solver counterexamples "
                                       "replayed natively against the real build in this run (0 on a clean tree) plus native self-validations of stubs / "
                                       "lowered models against the real functions that passed.",
            "obligations": len(sel),
            "discharged": nd,
            "known_findings_matched": [{"harness": hn, "what": k["what"]} for k, hn in known_hits],
            "checker_cmd": "cargo kani --harness <h> --exact --no-default-features --features <f> [-Z stubbing] -Z concrete-playback --concrete-playback=print",
            "trusted_base": TRUSTED_BASE,
            "functions_encoded": sorted(functions),
            "solver_time_s": round(solver_s, 1),
            "selftests": selftests,
            "generated_models": GENERATED_INFO,
            "undecided": undecided[:20],
            "violations": [{"harness": v["harness"], "replay": v["path"], "failures": v["failures"][:3]} for v in violations],
            "exhaustive": False,
            "explanation": "bounded model checking of the real functions (scratch copy of /repo's working tree, harness modules appended "
                           "as child modules); everything outside the per-harness bounds is outside the claim",
        },
        "assumptions": sorted(assumes) + ["stub: " + s for s in sorted(stubs)] + [
            "no_std build configuration (crate::Error is a Copy enum; Read/Write are the crate's own traits) unless the harness says otherwise",
            "Kani compiles with overflow checks and debug assertions on: panics are dev-profile panics",
        ],
        "wall_s": round(wall, 1),
        "violations": len(violations),
    }
    with open(os.path.join(EVIDENCE_DIR, prop + ".json"), "w") as f:
        json.dump(ev, f, indent=1)


def replay_file(prop, path):
    """Re-run a stored counterexample against the current tree."""
    rep = json.load(open(path))
    frags = load_fragments()
    fr = next(f for f in frags if f.name == rep["fragment"])
    h = next(x for x in fr.harnesses if x["id"] == rep["harness"])
    deps = set(fr.meta.get("needs", []))
    use = [f for f in frags if f.always or f.name == fr.name or f.name in deps]
    scratch, src = make_scratch(use)
    logdir = os.path.join(CACHE, "logs", prop + ".replay")
    os.makedirs(logdir, exist_ok=True)
    try:
        if rep.get("kind") in ("model-level", "solver-verdict-only"):
            # stub-dependent harness: "replay" = decide the same harness again on the current tree
            r = run_harness(h, src, logdir)
            want = {f["description"] for f in rep.get("failures", [])}
            got = {f["description"] for f in r.get("failures", [])}
            if r["verdict"] == "FAILED" and (want & got):
                print("replay of %s (model-level): the solver still finds the violation: %s" % (rep["harness"], sorted(want & got)[:2]))
                print("VIOLATION property=%s replay=%s" % (prop, path))
                return 1
            print("replay of %s (model-level): verdict now %s" % (rep["harness"], r["verdict"]))
            return 0 if r["verdict"] in ("DISCHARGED", "FAILED") else 2
        if "playback_test" not in rep:
            print("no concrete test stored in", path)
            return 2
        ok, detail = native_replay(h, fr, src, rep["playback_test"], logdir)
        print("replay of %s: %s (%s)" % (rep["harness"], "REPRODUCED" if ok else "not reproduced", detail))
        if ok:
            print("VIOLATION property=%s replay=%s" % (prop, path))
            return 1
        return 0 if ok is False else 2
    finally:
        shutil.rmtree(scratch, ignore_errors=True)


def compile_only(frag_names=None, features=None):
    """Developer aid: inject fragments (all, or the named ones plus always/needs) and only run Kani's codegen."""
    frags = load_fragments()
    if frag_names:
        deps = set()
        for f in frags:
            if f.name in frag_names:
                deps.update(f.meta.get("needs", []))
        use = [f for f in frags if f.always or f.name in frag_names or f.name in deps]
    else:
        use = frags
    feats = features or sorted({h["features"] for f in use for h in f.harnesses} | {f.features for f in use})
    scratch, src = make_scratch(use)
    rc_all = 0
    try:
        for ft in feats:
            slot = Slot().acquire(4)
            try:
                cmd = ["cargo", "kani", "--only-codegen", "--no-default-features", "--features", ft,
                       "--target-dir", os.path.join(slot.dir, "target"), "-Z", "stubbing"]
                rc, out, to, wall = run_cmd(cmd, src, 600, 16)
            finally:
                slot.release()
            errs = [l for l in strip_noise(out).splitlines()]
            ok = rc == 0
            print("features=%s: %s (%.0fs)" % (ft, "OK" if ok else "FAILED", wall))
            if not ok:
                rc_all = 1
                txt = strip_noise(out)
                i = txt.find("error")
                print(txt[i:i + 6000])
    finally:
        shutil.rmtree(scratch, ignore_errors=True)
    return rc_all
