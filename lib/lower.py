#!/usr/bin/env python3
"""Engine L (DESIGN.md 1.2): source lowering of the fragments Kani cannot interpret.

  * the `core::arch::asm!` blocks of RangeDecoder::decode_direct_bits_{x86_64,aarch64}  (src/range_dec.rs)
  * the SIMD bodies of normalize_{avx2,sse41,neon}                                      (src/lz/lz_encoder.rs)

are re-read from /repo's current text on every run and translated to straight-line Rust over wrapping integer
operations.  Anything the translator does not know (mnemonic, operand form, intrinsic) raises LowerError, which the
engine reports as UNDECIDED - it never guesses.  The generated model is validated natively against the real asm / SIMD
code by a selftest on every run (x86-64 host), and compared with the real portable code by Kani.
"""
import re


class LowerError(Exception):
    pass


def _fn_body(text, name):
    text = re.sub(r"/\*.*?\*/", lambda mm: " " * len(mm.group(0)), text, flags=re.S)  # block comments hold an old copy
    m = re.search(r"fn\s+%s\s*\(" % re.escape(name), text)
    if not m:
        raise LowerError("function %s not found" % name)
    i = text.index("{", m.end())
    depth = 0
    for j in range(i, len(text)):
        if text[j] == "{":
            depth += 1
        elif text[j] == "}":
            depth -= 1
            if depth == 0:
                return text[i:j + 1]
    raise LowerError("unbalanced braces in %s" % name)


def _asm_parts(body):
    m = re.search(r'asm!\(r#"(.*?)"#,(.*?)options\(([^)]*)\)', body, re.S)
    if not m:
        raise LowerError("asm! block not found")
    code, operands, options = m.group(1), m.group(2), m.group(3)
    insns = []
    for line in code.splitlines():
        line = line.split("//")[0].strip()
        if line:
            insns.append(line)
    ops = {}
    for line in operands.splitlines():
        line = line.split("//")[0].strip().rstrip(",")
        if not line:
            continue
        mm = re.match(r"(\w+)\s*=\s*(inout|in|out|const)(?:\(reg\))?\s*(.*)$", line)
        if not mm:
            raise LowerError("unknown asm operand form: " + line)
        ops[mm.group(1)] = (mm.group(2), mm.group(3).strip())
    return insns, ops, options


def _reg(tok):
    m = re.fullmatch(r"\{(\w+)(?::(\w))?\}", tok)
    if not m:
        return None
    return m.group(1), m.group(2)


class _Asm:
    """Common scaffolding: registers are u64 variables; 32-bit operand forms operate on the low half and zero-extend
    (x86-64 `e` registers and AArch64 `w` registers both zero the upper half on write)."""

    def __init__(self, insns, ops, consts):
        self.insns, self.ops, self.consts = insns, ops, consts
        self.blocks = []          # list of (label or None, [rust statements])
        self.cur = []
        self.labels = {}

    def val(self, tok):
        tok = tok.strip()
        r = _reg(tok)
        if r:
            name, w = r
            if name in self.consts:
                return "(%su64)" % self.consts[name], 64
            if w in ("e", "w"):
                return "(r_%s & 0xFFFF_FFFF)" % name, 32
            if w is None:
                return "r_%s" % name, 64
            raise LowerError("unknown register width modifier: " + tok)
        t = tok.lstrip("#")
        r2 = _reg(t)
        if r2 and r2[0] in self.consts:
            return "(%su64)" % self.consts[r2[0]], 64
        if re.fullmatch(r"\d+", t):
            return "(%su64)" % t, 64
        raise LowerError("unknown operand: " + tok)

    def dst(self, tok):
        r = _reg(tok.strip())
        if not r or r[0] in self.consts:
            raise LowerError("bad destination operand: " + tok)
        return r[0], (32 if r[1] in ("e", "w") else 64)

    def set(self, d, w, expr):
        if w == 32:
            self.cur.append("r_%s = (%s) & 0xFFFF_FFFF;" % (d, expr))
        else:
            self.cur.append("r_%s = %s;" % (d, expr))

    def end_block(self, nxt):
        self.cur.append(nxt)
        self.blocks.append(self.cur)
        self.cur = []


def _split_ops(s):
    out, depth, cur = [], 0, ""
    for ch in s:
        if ch == "[":
            depth += 1
        if ch == "]":
            depth -= 1
        if ch == "," and depth == 0:
            out.append(cur.strip())
            cur = ""
        else:
            cur += ch
    if cur.strip():
        out.append(cur.strip())
    return out


def _lower_generic(insns, ops, arch):
    consts = {k: v[1] for k, v in ops.items() if v[0] == "const"}
    # resolve `const SHIFT_BITS` style operands
    for k, v in list(consts.items()):
        v = v.strip()
        if v == "SHIFT_BITS":
            consts[k] = "8"
        elif re.fullmatch(r"0x[0-9A-Fa-f_]+|\d+", v):
            consts[k] = v
        else:
            raise LowerError("unknown asm constant: %s = %s" % (k, v))
    a = _Asm(insns, ops, consts)
    # first pass: block boundaries
    blocks = [[]]
    label_of_block = {0: None}
    for ins in insns:
        m = re.fullmatch(r"(\d+):", ins)
        if m:
            if blocks[-1]:
                blocks.append([])
            label_of_block[len(blocks) - 1] = m.group(1)
            continue
        blocks[-1].append(ins)
        if re.match(r"(j[a-z]+|b\.[a-z]+)\b", ins):
            blocks.append([])
    blocks = [b for b in blocks]
    label_to_idx = {}
    for idx, lab in label_of_block.items():
        if lab is not None:
            label_to_idx[lab] = idx
    out_blocks = []
    for bi, b in enumerate(blocks):
        a.cur = []
        jumped = False
        for ins in b:
            mn, _, rest = ins.partition(" ")
            o = _split_ops(rest.strip())
            if arch == "x86_64":
                if mn == "shl":
                    d, w = a.dst(o[0]); s, _ = a.val(o[1]); a.set(d, w, "%s << %s" % (a.val(o[0])[0], s))
                elif mn == "shr":
                    d, w = a.dst(o[0]); s, _ = a.val(o[1]); a.set(d, w, "%s >> %s" % (a.val(o[0])[0], s))
                elif mn == "lea":
                    d, w = a.dst(o[0])
                    m = re.fullmatch(r"\[(\{\w+(?::\w)?\})\s*\+\s*(\d+)\]", o[1])
                    if not m:
                        raise LowerError("unknown lea form: " + ins)
                    a.set(d, w, "%s.wrapping_add(%s)" % (a.val(m.group(1))[0], m.group(2)))
                elif mn == "cmp":
                    x, wx = a.val(o[0]); y, _ = a.val(o[1])
                    a.cur.append("cmp_a = %s; cmp_b = %s; cmp_w = %d;" % (x, y, wx))
                elif mn in X86_JCC_CMP:
                    tgt = label_to_idx[o[0].rstrip("fb")]
                    a.cur.append("if %s { pc = %d; continue; }" % (X86_JCC_CMP[mn], tgt))
                elif mn == "mov":
                    d, w = a.dst(o[0]); a.set(d, w, a.val(o[1])[0])
                elif mn == "cmovg":
                    d, w = a.dst(o[0])
                    a.cur.append("if (if cmp_w == 64 { (cmp_a as i64) > (cmp_b as i64) } else { (cmp_a as u32 as i32) > (cmp_b as u32 as i32) }) { %s }" % ("r_%s = %s;" % (d, a.val(o[1])[0]) if w == 64 else "r_%s = (%s) & 0xFFFF_FFFF;" % (d, a.val(o[1])[0])))
                elif mn == "movzx":
                    d, w = a.dst(o[0])
                    m = re.fullmatch(r"byte ptr \[(\{\w+\})\s*\+\s*(\{\w+\})\]", o[1])
                    if not m or _reg(m.group(1))[0] != "buf_ptr":
                        raise LowerError("unknown movzx form: " + ins)
                    a.set(d, w, "ld(buf, %s, oob) as u64" % a.val(m.group(2))[0])
                elif mn == "or":
                    d, w = a.dst(o[0]); a.set(d, w, "%s | %s" % (a.val(o[0])[0], a.val(o[1])[0]))
                elif mn == "inc":
                    d, w = a.dst(o[0]); a.set(d, w, "%s.wrapping_add(1)" % a.val(o[0])[0])
                elif mn == "sub":
                    d, w = a.dst(o[0])
                    if w != 32:
                        raise LowerError("64-bit sub not modelled: " + ins)
                    a.set(d, w, "(%s as u32).wrapping_sub(%s as u32) as u64" % (a.val(o[0])[0], a.val(o[1])[0]))
                    a.cur.append("sf = (r_%s as u32 as i32) < 0;" % d)
                elif mn == "cmovs":
                    d, w = a.dst(o[0]); a.cur.append("if sf { r_%s = %s; }" % (d, a.val(o[1])[0]))
                elif mn == "cmovns":
                    d, w = a.dst(o[0]); a.cur.append("if !sf { r_%s = %s; }" % (d, a.val(o[1])[0]))
                elif mn == "dec":
                    d, w = a.dst(o[0])
                    if w != 32:
                        raise LowerError("64-bit dec not modelled: " + ins)
                    a.set(d, w, "(%s as u32).wrapping_sub(1) as u64" % a.val(o[0])[0])
                    a.cur.append("zf = r_%s == 0;" % d)
                elif mn in ("jnz", "jne", "jz", "je"):
                    # zero flag of the last flag-setting instruction that was modelled (dec / sub); after a plain `cmp`
                    # the translator has no ZF model, so these are only accepted directly after dec/sub
                    tgt = label_to_idx[o[0].rstrip("fb")]
                    a.cur.append("if %szf { pc = %d; continue; }" % ("!" if mn in ("jnz", "jne") else "", tgt))
                else:
                    raise LowerError("unknown x86-64 mnemonic: " + ins)
            else:  # aarch64
                if mn == "mov":
                    d, w = a.dst(o[0]); a.set(d, w, a.val(o[1])[0])
                elif mn in ("lsl", "lsr"):
                    d, w = a.dst(o[0]); op = "<<" if mn == "lsl" else ">>"
                    a.set(d, w, "%s %s %s" % (a.val(o[1])[0], op, a.val(o[2])[0]))
                elif mn == "orr":
                    d, w = a.dst(o[0]); a.set(d, w, "%s | %s" % (a.val(o[1])[0], a.val(o[2])[0]))
                elif mn == "cmp":
                    x, wx = a.val(o[0]); y, _ = a.val(o[1])
                    a.cur.append("cmp_a = %s; cmp_b = %s; cmp_w = %d;" % (x, y, wx))
                elif mn in A64_BCC_CMP:
                    tgt = label_to_idx[o[0].rstrip("fb")]
                    a.cur.append("if %s { pc = %d; continue; }" % (A64_BCC_CMP[mn], tgt))
                elif mn == "csel":
                    d, w = a.dst(o[0]); cond = o[3].strip()
                    c = {"hi": "cmp_a > cmp_b", "hs": "cmp_a >= cmp_b", "cs": "cmp_a >= cmp_b", "lo": "cmp_a < cmp_b",
                         "cc": "cmp_a < cmp_b", "ls": "cmp_a <= cmp_b", "eq": "cmp_a == cmp_b", "ne": "cmp_a != cmp_b",
                         "pl": "signed_ge0(cmp_a, cmp_b, cmp_w)", "mi": "!signed_ge0(cmp_a, cmp_b, cmp_w)"}.get(cond)
                    if c is None:
                        raise LowerError("unknown csel condition: " + ins)
                    x, y = a.val(o[1])[0], a.val(o[2])[0]
                    a.cur.append("{ let t_a = %s; let t_b = %s; r_%s = if %s { t_a } else { t_b }; }" % (x, y, d, c))
                elif mn == "ldrb":
                    d, w = a.dst(o[0])
                    m = re.fullmatch(r"\[(\{\w+\}),\s*(\{\w+\})\]", o[1] + ("," + o[2] if len(o) > 2 else ""))
                    if not m:
                        m = re.fullmatch(r"\[(\{\w+\}),\s*(\{\w+\})\]", rest[rest.index("["):])
                    if not m or _reg(m.group(1))[0] != "buf_ptr":
                        raise LowerError("unknown ldrb form: " + ins)
                    a.set(d, w, "ld(buf, %s, oob) as u64" % a.val(m.group(2))[0])
                elif mn == "add":
                    d, w = a.dst(o[0]); a.set(d, w, "%s.wrapping_add(%s)" % (a.val(o[1])[0], a.val(o[2])[0]))
                elif mn == "subs":
                    d, w = a.dst(o[0])
                    x, y = a.val(o[1])[0], a.val(o[2])[0]
                    if w != 32:
                        raise LowerError("64-bit subs not modelled: " + ins)
                    a.cur.append("cmp_a = %s; cmp_b = %s; cmp_w = 32;" % (x, y))
                    a.set(d, w, "(cmp_a as u32).wrapping_sub(cmp_b as u32) as u64")
                    a.cur.append("zf = r_%s == 0;" % d)
                elif mn in ("b.ne", "b.eq"):
                    tgt = label_to_idx[o[0].rstrip("fb")]
                    a.cur.append("if %szf { pc = %d; continue; }" % ("!" if mn == "b.ne" else "", tgt))
                else:
                    raise LowerError("unknown aarch64 mnemonic: " + ins)
        nxt = "pc = %d; continue;" % (bi + 1) if bi + 1 < len(blocks) else "break;"
        a.cur.append(nxt)
        out_blocks.append(a.cur)
    return out_blocks, consts


def lower_direct_bits(range_dec_text, arch):
    fname = "decode_direct_bits_" + arch
    body = _fn_body(range_dec_text, fname)
    insns, ops, options = _asm_parts(body)
    # operand bindings must be the ones the model is written for
    want = {"range": "inout", "code": "inout", "pos": "inout", "count": "inout", "result": "inout", "buf_ptr": "in", "limit": "in"}
    for k, kind in want.items():
        if k not in ops or ops[k][0] != kind:
            raise LowerError("asm operand `%s` missing or not `%s`" % (k, kind))
    if ops["range"][1] != "self.range" or ops["code"][1] != "self.code":
        raise LowerError("range/code are not bound to self.range/self.code")
    m = re.search(r"let\s+limit\s*=\s*([^;]+);", body)
    if not m:
        raise LowerError("`let limit = ...;` binding not found")
    limit_src = " ".join(m.group(1).split())
    limit_expr = limit_src.replace("buf.len()", "(buf.len() as u64)")
    if re.sub(r"\(buf\.len\(\) as u64\)|[0-9]+|\+|-|\(|\)|\s|\.saturating_sub|\.wrapping_sub", "", limit_expr):
        raise LowerError("limit binding uses unknown vocabulary: " + limit_src)
    limit_expr = re.sub(r"\b([0-9]+)\b", r"\1u64", limit_expr).replace(" - ", ".wrapping_sub(").replace(" + ", ".wrapping_add(")
    # close the parentheses opened by the two replacements above
    limit_expr = limit_expr + ")" * (limit_expr.count(".wrapping_sub(") + limit_expr.count(".wrapping_add("))
    m = re.search(r"self\.inner\.set_pos\((.*?)\);", body)
    if not m:
        raise LowerError("set_pos write-back not found")
    wb = m.group(1).strip()
    if wb == "pos.min(buf.len())":
        writeback = "core::cmp::min(r_pos as usize, buf.len())"
    elif wb == "pos":
        writeback = "r_pos as usize"
    else:
        raise LowerError("unknown pos write-back expression: " + wb)
    if not re.search(r"let\s+mut\s+result\s*:\s*i32\s*=\s*0\s*;", body):
        raise LowerError("result initialisation not found")
    blocks, consts = _lower_generic(insns, ops, arch)
    regs = sorted(k for k, v in ops.items() if v[0] != "const")
    lines = []
    lines.append("/// generated by /verif/lib/lower.py from the asm! block of `%s`" % fname)
    lines.append("pub(crate) fn model_direct_bits_%s(range: &mut u32, code: &mut u32, pos: &mut usize, buf: &[u8], count: u32, oob: &mut bool) -> i32 {" % arch)
    lines.append("    #[inline(always)] fn ld(buf: &[u8], idx: u64, oob: &mut bool) -> u8 { if (idx as usize) < buf.len() && idx < (1u64 << 60) { buf[idx as usize] } else { *oob = true; 0 } }")
    lines.append("    #[inline(always)] fn signed_ge0(a: u64, b: u64, w: u32) -> bool { if w == 64 { (a.wrapping_sub(b) as i64) >= 0 } else { ((a as u32).wrapping_sub(b as u32) as i32) >= 0 } }")
    lines.append("    let (mut cmp_a, mut cmp_b, mut cmp_w, mut sf, mut zf) = (0u64, 0u64, 64u32, false, false);")
    for r in regs:
        init = {"range": "*range as u64", "code": "*code as u64", "pos": "*pos as u64", "count": "count as u64", "result": "0u64",
                "buf_ptr": "0u64", "limit": limit_expr}.get(r, "0u64")
        lines.append("    let mut r_%s: u64 = %s;" % (r, init))
    lines.append("    let mut pc = 0u32;")
    lines.append("    loop {")
    lines.append("        match pc {")
    for i, b in enumerate(blocks):
        lines.append("            %d => {" % i)
        for st in b:
            lines.append("                " + st)
        lines.append("            }")
    lines.append("            _ => unreachable!(),")
    lines.append("        }")
    lines.append("    }")
    lines.append("    let _ = (cmp_w, sf, zf, cmp_a, cmp_b, r_buf_ptr);")
    lines.append("    *range = r_range as u32; *code = r_code as u32; *pos = %s;" % writeback)
    lines.append("    r_result as u32 as i32")
    lines.append("}")
    txt = "\n".join(lines)
    return txt, {"arch": arch, "instructions": len(insns), "blocks": len(blocks), "writeback": wb, "limit": limit_src, "options": options.strip()}


# unsigned/signed conditions after `cmp a, b` (cmp_a, cmp_b hold the zero-extended operands, cmp_w the width)
X86_JCC_CMP = {
    "jae": "cmp_a >= cmp_b", "jnb": "cmp_a >= cmp_b", "jnc": "cmp_a >= cmp_b",
    "ja": "cmp_a > cmp_b", "jnbe": "cmp_a > cmp_b",
    "jb": "cmp_a < cmp_b", "jc": "cmp_a < cmp_b", "jnae": "cmp_a < cmp_b",
    "jbe": "cmp_a <= cmp_b", "jna": "cmp_a <= cmp_b",
}
A64_BCC_CMP = {
    "b.hs": "cmp_a >= cmp_b", "b.cs": "cmp_a >= cmp_b", "b.hi": "cmp_a > cmp_b",
    "b.lo": "cmp_a < cmp_b", "b.cc": "cmp_a < cmp_b", "b.ls": "cmp_a <= cmp_b",
}

SIMD_MAP = {
    # intrinsic -> lambda(args) -> rust expr over i32 lanes
    "_mm256_set1_epi32": lambda a: a[0], "_mm_set1_epi32": lambda a: a[0], "vdupq_n_s32": lambda a: a[0],
    "_mm256_load_si256": lambda a: "p", "_mm_load_si128": lambda a: "p", "vld1q_s32": lambda a: "p",
    "_mm256_max_epi32": lambda a: "core::cmp::max(%s, %s)" % (a[0], a[1]), "_mm_max_epi32": lambda a: "core::cmp::max(%s, %s)" % (a[0], a[1]),
    "vmaxq_s32": lambda a: "core::cmp::max(%s, %s)" % (a[0], a[1]),
    "_mm256_sub_epi32": lambda a: "(%s).wrapping_sub(%s)" % (a[0], a[1]), "_mm_sub_epi32": lambda a: "(%s).wrapping_sub(%s)" % (a[0], a[1]),
    "vsubq_s32": lambda a: "(%s).wrapping_sub(%s)" % (a[0], a[1]),
}
SIMD_STORE = ("_mm256_store_si256", "_mm_store_si128", "vst1q_s32")


def lower_normalize(lz_encoder_text, variant):
    fname = "normalize_" + variant
    body = _fn_body(lz_encoder_text, fname)
    body_nc = "\n".join(l.split("//")[0] for l in body.splitlines())
    m = re.search(r"let\s*\(\s*prefix\s*,\s*chunks\s*,\s*suffix\s*\)\s*=\s*positions\.align_to_mut::<\s*(\w+)\s*>\(\)", body_nc)
    if not m:
        raise LowerError("%s: `(prefix, chunks, suffix) = positions.align_to_mut::<T>()` split not found" % fname)
    lanes = {"__m256i": 8, "__m128i": 4, "int32x4_t": 4}.get(m.group(1))
    if lanes is None:
        raise LowerError("%s: unknown SIMD vector type %s" % (fname, m.group(1)))
    prefix_scalar = "normalize_scalar(prefix, norm_offset)" in body_nc
    suffix_scalar = "normalize_scalar(suffix, norm_offset)" in body_nc
    if not re.search(r"for\s+chunk\s+in\s+chunks", body_nc):
        raise LowerError("%s: loop over the aligned chunks not found" % fname)
    stmts = []
    stored = None
    # statements with intrinsic calls, in order
    for m in re.finditer(r"(?:let\s+(\w+)\s*=\s*)?(\w+)\((.*?)\);", body.replace("\n", " ")):
        var, fn, args = m.group(1), m.group(2), [x.strip() for x in m.group(3).split(",")]
        if fn in SIMD_MAP:
            args = ["norm_offset" if x == "norm_offset" else x for x in args]
            stmts.append("let %s: i32 = %s;" % (var, SIMD_MAP[fn](args)))
        elif fn in SIMD_STORE:
            stored = args[-1]
        elif fn in ("normalize_scalar",) or fn.startswith("align_to") or fn in ("as", "for"):
            continue
        elif fn.startswith("_mm") or fn.startswith("v") and fn.endswith("s32"):
            raise LowerError("%s: unknown SIMD intrinsic %s" % (fname, fn))
    if stored is None:
        raise LowerError("%s: no SIMD store found" % fname)
    lines = ["/// generated by /verif/lib/lower.py from the SIMD body of `%s` (one i32 lane)" % fname,
             "pub(crate) fn model_lane_%s(p: i32, norm_offset: i32) -> i32 {" % variant]
    lines += ["    " + s for s in stmts]
    lines += ["    %s" % stored, "}"]
    # whole-array model: unaligned prefix / aligned chunks / unaligned suffix, exactly as the source treats them
    lines += ["",
              "/// generated: `%s` on a whole slice whose unaligned prefix has `prefix_len` elements" % fname,
              "pub(crate) fn model_normalize_%s(a: &mut [i32], norm_offset: i32, prefix_len: usize) {" % variant,
              "    let n = a.len();",
              "    let p = core::cmp::min(prefix_len, n);",
              "    let end = p + (n - p) / %d * %d;" % (lanes, lanes)]
    if prefix_scalar:
        lines += ["    super::normalize_scalar(&mut a[..p], norm_offset);"]
    lines += ["    let mut i = p;", "    while i < end { a[i] = model_lane_%s(a[i], norm_offset); i += 1; }" % variant]
    if suffix_scalar:
        lines += ["    super::normalize_scalar(&mut a[end..], norm_offset);"]
    lines += ["}"]
    return "\n".join(lines), {"variant": variant, "statements": len(stmts), "lanes": lanes, "prefix_scalar": prefix_scalar, "suffix_scalar": suffix_scalar}


def lower_dispatch(range_dec_text, arch):
    """The condition under which decode_direct_bits hands over to the asm variant, as a Rust predicate over
    (pos, len, count).  Only the vocabulary below is understood; anything else is a LowerError."""
    body = _fn_body(range_dec_text, "decode_direct_bits")
    m = re.search(r"if\s+([^{}]*?)\{\s*return\s+self\.decode_direct_bits_%s\(count\);" % arch, body, re.S)
    if not m:
        raise LowerError("dispatch to decode_direct_bits_%s not found" % arch)
    cond = " ".join(m.group(1).split())
    expr = cond
    for a, b in (("self.inner.is_buffer()", "true"), ("self.inner.pos()", "pos"), ("self.inner.buf().len()", "len")):
        expr = expr.replace(a, b)
    left = re.sub(r"\b(true|pos|len|count|as|usize|u32|u64)\b|\.div_ceil|\.min|\.max|\.saturating_sub|\.saturating_add|[0-9]+|&&|\|\||<=|>=|<|>|==|\+|-|\*|/|\(|\)|\s", "", expr)
    if left:
        raise LowerError("dispatch condition uses unknown vocabulary: %r in %r" % (left, cond))
    txt = "/// generated from the dispatch condition `%s`\npub(crate) fn model_dispatch_%s(pos: usize, len: usize, count: u32) -> bool {\n    %s\n}" % (cond, arch, expr)
    return txt, {"arch": arch, "dispatch": cond}
