"""Generators called by vk.make_scratch for fragments with a "generator" key: they read /repo's CURRENT source text
(the scratch copy) and return (rust_text, info)."""
import os
import lower


def asm_models(src):
    text = open(os.path.join(src, "src/range_dec.rs")).read()
    out, infos = [], []
    for arch in ("x86_64", "aarch64"):
        t, info = lower.lower_direct_bits(text, arch)
        out.append(t)
        infos.append(info)
        t, info = lower.lower_dispatch(text, arch)
        out.append(t)
        infos.append(info)
    return "\n\n".join(out), infos


def simd_models(src):
    text = open(os.path.join(src, "src/lz/lz_encoder.rs")).read()
    out, infos = [], []
    for v in ("avx2", "sse41", "neon"):
        t, info = lower.lower_normalize(text, v)
        out.append(t)
        infos.append(info)
    return "\n\n".join(out), infos
