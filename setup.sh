#!/bin/bash
# Offline setup after a fresh restore: warm one Kani target dir per slot so that registry crates (crc, sha2)
# are compiled once.  Everything is rebuilt from files on disk; nothing is fetched.
set -u
cd "$(dirname "$0")"
export CARGO_NET_OFFLINE=true
mkdir -p .cache evidence replays
python3 - <<'PY'
import os, sys, subprocess, shutil, tempfile
sys.path.insert(0, 'lib')
import vk
frags = [f for f in vk.load_fragments() if f.always]
scratch, src = vk.make_scratch(frags)
try:
    with open(os.path.join(src, 'src/lib.rs'), 'a') as f:
        f.write('\n#[cfg(kani)] mod verif_warm { #[kani::proof] fn warm() { let x: u8 = kani::any(); assert!(x as u32 + 1 > 0); } }\n')
    n = int(os.environ.get('VERIF_WARM_SLOTS', vk.N_SLOTS))
    procs = []
    for k in range(n):
        d = os.path.join(vk.CACHE, 'slot%02d' % k)
        os.makedirs(d, exist_ok=True)
        for feats in ('encoder,xz,lzip',):
            procs.append(subprocess.Popen(['cargo', 'kani', '--harness', 'verif_warm::warm', '--exact', '--no-default-features',
                                           '--features', feats, '--target-dir', os.path.join(d, 'target')],
                                          cwd=src, stdout=subprocess.DEVNULL, stderr=subprocess.DEVNULL))
    rc = [p.wait() for p in procs]
    print('warmed %d slots, exit codes %s' % (n, sorted(set(rc))))
    sys.exit(0 if all(r == 0 for r in rc) else 1)
finally:
    shutil.rmtree(scratch, ignore_errors=True)
PY
